"""C16 – two small document families next to the chain workload (generated as FlowIR documents directly):

  A  a component names ABSOLUTE-PATH direct references (`/abs/dir/file:ref`) to files outside the instance.  `@EXT@` in
     the document is replaced by the absolute path of the external directory of the materialisation at hand.
  O  a component references two components that have the SAME NAME in different stages (equally long absolute
     references), one of them in stage-less spelling, plus hostile non-tie neighbours (`b-a` next to `a`).

A materialisation case is {doc, data, external, extdir, outputs (keyed 'stageN.name'), where, mtime, missing_external}.
A family case is {fam, E, judged, variants:[{id, case, strong, fuzzy, detail}], klass}.  Relations come from the property
statement: same executable, same arguments after every reference is replaced by the hash of the content it refers to,
files with equal contents through equal methods, same image  <=>  same strong hash; location is irrelevant.
Nothing here looks at the repository code.
"""
from __future__ import annotations

import copy
import random
from typing import Any, Dict, List

from checks import _c16_gen as _gen

EQUAL, DIFFER, NONE, NOCLAIM = "equal", "differ", "none", None
NAMES = ["a", "ab", "gen", "gen-x", "w", "p", "x-y", "A", "prod", "t"]
EXES = ["echo", "cat", "ls", "wc", "sh"]
LITS = ["hello", "-n", "--flag", "x", "v=1", "-c"]


def _mat(doc, data=None, external=None, extdir="ext", outputs=None, where="A", mtime=1.5e9):
    return {"doc": doc, "data": data or {}, "external": external or {}, "extdir": extdir, "outputs": outputs or {},
            "where": where, "mtime": mtime, "missing_external": []}


# ----------------------------------------------------------------------------- family A

def gen_abs(r: random.Random, index: int) -> Dict[str, Any]:
    pn, tn = r.sample(NAMES, 2)
    nfiles = r.choice([1, 1, 2])
    fnames = r.sample(["in.dat", "in.dat2", "cfg", "a.b-c_d.txt"], nfiles)
    external = {f: "external %s %d\n" % (f, r.randrange(10 ** 6)) for f in fnames}
    on_cmdline = r.random() < 0.75
    method = "ref" if on_cmdline else r.choice(["copy", "link"])
    refs = ["@EXT@/%s:%s" % (f, method) for f in fnames]
    args = [r.choice(LITS)]
    if on_cmdline:
        style = r.choice(["plain", "plain", "flag", "twice"])
        for x in refs:
            if style == "flag":
                args.append("--input=%s" % x)   # preceded by '=' : still a whole reference token
            else:
                args.append(x)
        if style == "twice":
            args.append(refs[0])
    with_prod = r.random() < 0.5
    if with_prod:
        refs.append("stage0.%s/out.txt:ref" % pn)
        args.append("stage0.%s/out.txt:ref" % pn)
    args.append(r.choice(LITS))
    doc = {"components": [
        {"name": pn, "stage": 0, "command": {"executable": r.choice(EXES), "arguments": r.choice(LITS)}},
        {"name": tn, "stage": 1, "references": refs,
         "command": {"executable": r.choice(EXES), "arguments": " ".join(args)}}]}
    outputs = {"stage0.%s" % pn: {"out.txt": "O-%s" % pn, "out.stdout": "S-%s" % pn},
               "stage1.%s" % tn: {"out.txt": "OT", "out.stdout": "ST"}}
    E = _mat(doc, external=external, extdir="ext", outputs=outputs)
    judged = "stage1.%s" % tn
    variants = []
    v = copy.deepcopy(E)
    v["where"] = r.choice(["B", "elsewhere/deeper", "A/A"])
    v["extdir"] = r.choice(["ext", "ext", "other-ext", "e/x/t"])
    variants.append({"id": "A1-external-files-live-elsewhere", "case": v, "strong": EQUAL, "fuzzy": EQUAL,
                     "detail": {"where": v["where"], "extdir": v["extdir"], "on_cmdline": on_cmdline}})
    v = copy.deepcopy(E)
    f = r.choice(fnames)
    v["external"][f] = v["external"][f] + "x"
    variants.append({"id": "A2-external-file-content", "case": v, "strong": DIFFER, "fuzzy": NOCLAIM, "detail": f})
    v = copy.deepcopy(E)
    v["missing_external"] = [r.choice(fnames)]
    variants.append({"id": "A3-external-file-missing", "case": v, "strong": NONE, "fuzzy": NOCLAIM,
                     "detail": v["missing_external"]})
    return {"fam": "A", "index": index, "E": E, "judged": judged, "variants": variants,
            "klass": "A:files%d:%s:prod%d" % (nfiles, "cmdline" if on_cmdline else method, int(with_prod))}


# ----------------------------------------------------------------------------- family O

def gen_order(r: random.Random, index: int) -> Dict[str, Any]:
    """consumer `c` (stage 1) names, in this order on its command line, a reference to stage0.<n> and one to the
    component of its own stage; variants permute ONLY the `references` field."""
    kind = r.choice(["same-name-two-stages", "same-name-two-stages", "hyphen-suffix", "distinct"])
    n = r.choice(["a", "gen", "w", "x-y", "p"])
    cname = r.choice([x for x in ["c", "cons", "t-t", "z"] if x != n])
    suffix, method = r.choice([("", "ref"), ("/out.txt", "ref"), ("", "output"), ("/out.txt", "output"),
                               ("/out.txt", "ref")])
    if kind == "same-name-two-stages":
        other = n                      # stage1.<n>, spelled stage-less: '<n>...' is a suffix of 'stage0.<n>...'
    elif kind == "hyphen-suffix":
        other = "b-" + n               # 'stage0.<n>' vs stage-less 'b-<n>' : not equally long, a neighbour only
    else:
        other = r.choice([x for x in ["q", "other", "zz"] if x != n])
    nstage = 1 if kind == "hyphen-suffix" else 0     # hyphen-suffix: both live in the consumer's stage, both stage-less
    far = ("%s%s:%s" if nstage == 1 else "stage0.%s%s:%s") % (n, suffix, method)
    near = "%s%s:%s" % (other, suffix, method)      # stage-less spelling of stage1.<other>
    extra = []
    data = {}
    if r.random() < 0.5:
        data["data/in.txt"] = "data %d\n" % r.randrange(10 ** 6)
        extra.append("data/in.txt:ref")
    toks = [far, near] + extra
    r.shuffle(toks)
    args = " ".join([r.choice(LITS)] + toks + [r.choice(LITS)])
    refs = [far, near] + extra
    r.shuffle(refs)
    doc = {"components": [
        {"name": n, "stage": nstage, "command": {"executable": "echo", "arguments": "far"}},
        {"name": other, "stage": 1, "command": {"executable": "echo", "arguments": "near"}},
        {"name": cname, "stage": 1, "references": refs, "command": {"executable": r.choice(EXES), "arguments": args}}]}
    if nstage == 1:
        doc["components"].insert(0, {"name": "filler", "stage": 0, "command": {"executable": "true", "arguments": "x"}})
    outputs = {"stage%d.%s" % (nstage, n): {"out.txt": "far-file %d" % r.randrange(1000), "out.stdout": "far-stdout"},
               "stage1.%s" % other: {"out.txt": "near-file %d" % r.randrange(1000), "out.stdout": "near-stdout"},
               "stage1.%s" % cname: {"out.txt": "c", "out.stdout": "c"}}
    E = _mat(doc, data=data, outputs=outputs)
    variants = []
    perms = []
    for _ in range(4):
        p = list(refs)
        r.shuffle(p)
        if p != refs and p not in perms:
            perms.append(p)
    if list(reversed(refs)) not in perms and list(reversed(refs)) != refs:
        perms.insert(0, list(reversed(refs)))
    for p in perms[:2]:
        v = copy.deepcopy(E)
        v["doc"]["components"][-1]["references"] = p
        variants.append({"id": "O1-references-field-permuted", "case": v, "strong": EQUAL, "fuzzy": EQUAL,
                         "detail": {"E": refs, "E_prime": p, "arguments": args}})
    # the content each reference points at must matter (a wrong substitution must not hide it)
    for who, key in (("far", "stage%d.%s" % (nstage, n)), ("near", "stage1.%s" % other)):
        if suffix or method == "output":
            fn = "out.txt" if suffix else "out.stdout"
            v = copy.deepcopy(E)
            v["outputs"][key][fn] = v["outputs"][key][fn] + "!"
            variants.append({"id": "O2-content-of-%s-producer-file" % who, "case": v, "strong": DIFFER, "fuzzy": EQUAL,
                             "detail": "%s/%s" % (key, fn)})
    return {"fam": "O", "index": index, "E": E, "judged": "stage1.%s" % cname, "variants": variants,
            "klass": "O:%s:%s:%s:data%d" % (kind, suffix or "-", method, len(extra)),
            "tie": kind == "same-name-two-stages"}


def gen_family_case(r: random.Random, index: int) -> Dict[str, Any]:
    return gen_abs(r, index) if index % 2 == 0 else gen_order(r, index)


# ----------------------------------------------------------------------------- family V
#
# A hash-relevant field of the judged component (mostly command.executable, also the arguments and the container
# image) is NOT a literal but is spelled through a %(variable)s.  What the component runs is the text AFTER the
# variable has been given its value, so (statement: "same strong hash exactly when they run the same executable with
# the same arguments ... and use the same container image"):
#   the value of the variable changes (where it is effectively defined)            -> strong must differ
#   the same text spelled literally                                                -> strong must be equal
#   a definition that does not reach the component changes (another variable, or a
#   definition shadowed by a component / stage / platform definition)              -> strong must be equal
#   the same package instantiated for another platform                            -> differ iff that platform gives the
#                                                                                     variable another value
#   sibling components of the SAME experiment: same template, other value -> differ; literal spelling -> equal
# The layering used is the documented one and only its uncontroversial part: a component's own `variables` and the
# variables of its stage take precedence over global ones; the global variables of the selected platform take precedence
# over those of `default`.  The fuzzy hash is not judged for these edits (the statement says nothing about the fuzzy
# hash under a change of the component's own definition) except through "producer's fuzzy hash changed => consumer's
# fuzzy hash changes".

V_FIELDS = ["executable", "executable", "executable", "executable", "arguments", "image"]
V_SOURCES = ["component", "global", "stage", "component-over-global", "stage-over-global", "platform-over-default"]
V_VALUES = {
    "executable": ["echo", "cat", "ls", "wc", "sh", "head", "true", "sort"],
    "arguments": ["hello", "-n", "x", "v=1", "0.5", "world", "7", "a:b"],
    "image": ["img", "img2", "tool-a", "base", "py3"],
}
V_TEMPLATES = {
    "executable": ["%(V)s", "%(V)s", "/usr/bin/%(V)s", "/opt/%(V)s/bin/run", "%(bindir)s/%(V)s"],
    "arguments": ["%(V)s", "--opt=%(V)s", "%(V)s"],
    "image": ["%(V)s", "registry.io/ns/%(V)s:1", "%(V)s:latest"],
}
V_BINDIR = "/usr/local/bin"


def _v_text(sym: Dict[str, Any], value, literal: bool) -> str:
    """the text of the varied field: the template with the variable's NAME (as %(name)s) or, literal, with `value`."""
    t = sym["template"]
    if literal:
        return t.replace("%(V)s", value).replace("%(bindir)s", V_BINDIR)
    return t.replace("%(V)s", "%%(%s)s" % sym["V"])


def _v_component(sym: Dict[str, Any], name: str, value, literal: bool, own_variables=None) -> Dict[str, Any]:
    field = sym["field"]
    exe = _v_text(sym, value, literal) if field == "executable" else sym["exe"]
    toks = [sym["lits"][0]]
    if field == "arguments":
        toks.append(_v_text(sym, value, literal))
    toks += sym["refs"]
    toks.append(sym["lits"][1])
    d: Dict[str, Any] = {"name": name, "stage": sym["stage"]}
    if sym["refs"]:
        d["references"] = list(sym["refs"])
    if own_variables:
        d["variables"] = dict(own_variables)
    d["command"] = {"executable": exe, "arguments": " ".join(toks)}
    if sym["backend"]:
        b = sym["backend"]
        img = _v_text(sym, value, literal) if field == "image" else sym["image"]
        d["resourceManager"] = {"config": {"backend": b}, b: {("dockerImage" if b == "lsf" else "image"): img}}
    return d


def _v_build(sym: Dict[str, Any]) -> Dict[str, Any]:
    """materialisation case of the symbolic description `sym`"""
    V, st, src = sym["V"], sym["stage"], sym["source"]
    glob = {sym["unused"]: sym["unused_value"], "bindir": V_BINDIR}
    stagevars: Dict[str, Any] = {}
    compvars: Dict[str, Any] = {}
    platglob: Dict[str, Any] = {}
    if src == "global":
        glob[V] = sym["x"]
    elif src == "component":
        compvars[V] = sym["x"]
    elif src == "stage":
        stagevars[V] = sym["x"]
    elif src == "component-over-global":
        compvars[V], glob[V] = sym["x"], sym["z"]
    elif src == "stage-over-global":
        stagevars[V], glob[V] = sym["x"], sym["z"]
    elif src == "platform-over-default":
        platglob[V], glob[V] = sym["x"], sym["z"]
    else:
        raise ValueError(src)
    variables: Dict[str, Any] = {"default": {"global": glob}}
    if stagevars:
        variables["default"]["stages"] = {st: stagevars}
    doc: Dict[str, Any] = {}
    if sym["plat"]:
        doc["platforms"] = ["default", sym["plat"]]
        variables[sym["plat"]] = {"global": platglob or {sym["unused"]: sym["unused_value"] + "-on-platform"}}
    doc["variables"] = variables
    comps = []
    if sym["producer"]:
        comps.append({"name": sym["producer"], "stage": 0, "command": {"executable": "echo", "arguments": "made"}})
    elif st > 0:
        comps.append({"name": "filler", "stage": 0, "command": {"executable": "true", "arguments": "x"}})
    comps.append(_v_component(sym, sym["work"], sym["x"], sym["literal"], compvars))
    # siblings in the same stage: the same template with its own (component) value y; the literal spelling of x
    comps.append(_v_component(sym, sym["sib"], sym["y"], False, {V: sym["y"]}))
    comps.append(_v_component(sym, sym["lit"], sym["x"], True, None))
    comps.append({"name": sym["cons"], "stage": st + 1, "references": ["stage%d.%s/out.txt:ref" % (st, sym["work"])],
                  "command": {"executable": "cat", "arguments": "stage%d.%s/out.txt:ref" % (st, sym["work"])}})
    doc["components"] = comps
    outputs = {"stage%d.%s" % (c["stage"], c["name"]): {"out.txt": "O-%s" % c["name"], "out.stdout": "S-%s" % c["name"]}
               for c in comps}
    m = _mat(doc, data=dict(sym["data"]), outputs=outputs, where=sym["where"])
    m["platform"] = sym["platform"]
    return m


def gen_var(r: random.Random, index: int) -> Dict[str, Any]:
    field = r.choice(V_FIELDS)
    source = V_SOURCES[index % len(V_SOURCES)] if r.random() < 0.85 else r.choice(V_SOURCES)
    # (no dotted names: `%(a.b)s` is left uninterpolated everywhere, also in what is executed - not a hashing matter)
    V = r.choice(["tool", "exe", "t", "x_y", "Tool2", "my-var", "T"])
    x, y, z, z2, x2 = r.sample(V_VALUES[field], 5)
    st = r.choice([0, 1, 1])
    names = r.sample(NAMES, 5)
    with_prod = st > 0 and r.random() < 0.6
    data, refs = {}, []
    if r.random() < 0.6:
        data["data/in.txt"] = "data %d\n" % r.randrange(10 ** 6)
        refs.append("data/in.txt:ref")
    if with_prod:
        refs.append("stage0.%s/out.txt:ref" % names[4])
    r.shuffle(refs)
    plat = None
    if source == "platform-over-default" or r.random() < 0.5:
        plat = r.choice(["other", "p1", "hpc-x"])
    backend = None
    if field == "image":
        backend = r.choice(["kubernetes", "lsf"])
    elif r.random() < 0.2:
        backend = r.choice(["kubernetes", "lsf"])
    sym = {"field": field, "source": source, "V": V, "template": r.choice(V_TEMPLATES[field]),
           "unused": r.choice([V + "2", V + "s", "unused", "x" + V]), "unused_value": r.choice(V_VALUES[field]),
           "x": x, "y": y, "z": z, "stage": st, "plat": plat,
           "platform": plat if source == "platform-over-default" else None,
           "exe": r.choice(EXES), "image": "registry.io/ns/fixed:1", "backend": backend,
           "lits": [r.choice(LITS), r.choice(LITS)], "refs": refs, "data": data,
           "producer": names[4] if with_prod else None,
           "work": names[0], "sib": names[1], "lit": names[2], "cons": names[3], "literal": False, "where": "A"}
    E = _v_build(sym)
    judged = "stage%d.%s" % (st, sym["work"])
    cons = "stage%d.%s" % (st + 1, sym["cons"])
    base_detail = {"field": field, "spelled": _v_text(sym, x, False), "variable": V, "defined_by": source, "value": x}
    variants = []

    def add(vid, s, strong, detail, **kw):
        d = dict(base_detail)
        d.update(detail)
        v = {"id": vid, "case": _v_build(s) if s is not None else None, "strong": strong, "fuzzy": NOCLAIM, "detail": d}
        v.update(kw)
        variants.append(v)

    s = dict(sym, x=x2, where="B")
    add("V1-value-of-the-variable-changed", s, DIFFER, {"new_value": x2}, chain=[cons, judged])
    s = dict(sym, literal=True, where="B")
    add("V2-same-text-spelled-literally", s, EQUAL, {"literal": _v_text(sym, x, True)})
    if source in ("component-over-global", "stage-over-global", "platform-over-default"):
        s = dict(sym, z=z2, where="B")
        add("V3-shadowed-definition-changed", s, EQUAL, {"shadowed_global_value": "%s -> %s" % (z, z2)})
    else:
        s = dict(sym, unused_value=sym["unused_value"] + "-changed", where="B")
        add("V3-unrelated-variable-changed", s, EQUAL, {"unrelated_variable": sym["unused"]})
    if plat:
        if source == "platform-over-default":
            s = dict(sym, platform=None, where="B")     # `default` gives the variable the value z != x
            add("V4-platform-gives-the-variable-another-value", s, DIFFER, {"platform": "default", "value_there": z})
        else:
            s = dict(sym, platform=plat, where="B")     # the platform only redefines the unrelated variable
            add("V4-platform-leaves-the-variable-alone", s, EQUAL, {"platform": plat})
    # siblings inside E itself (two components of one experiment)
    add("V5-sibling-same-template-other-value", None, DIFFER, {"sibling_value": y}, within=True,
        judged_prime="stage%d.%s" % (st, sym["sib"]))
    add("V6-sibling-spells-the-same-text-literally", None, EQUAL, {"literal": _v_text(sym, x, True)}, within=True,
        judged_prime="stage%d.%s" % (st, sym["lit"]))
    return {"fam": "V", "index": index, "E": E, "judged": judged, "variants": variants,
            "klass": "V:%s:%s:%s:plat%d:stage%d" % (field, source, sym["template"], int(bool(plat)), st)}


# ----------------------------------------------------------------------------- structural classifiers

def names_absolute_reference_on_cmdline(case: Dict[str, Any], judged: str) -> bool:
    comp = _comp(case, judged)
    toks = comp["command"]["arguments"].replace("=", " ").split()
    return any(t.startswith("@EXT@/") and t in [x for x in comp.get("references", [])] for t in toks)


def has_suffix_spelling_tie(case: Dict[str, Any], judged: str) -> bool:
    """two references of the judged component whose absolute spellings are equally long while the spelling used on the
    command line of one is a proper suffix of the spelling of the other, preceded there by a non-word character."""
    comp = _comp(case, judged)
    stage = comp.get("stage", 0)
    refs = [x for x in comp.get("references", [])]
    args = comp["command"]["arguments"]

    def absolute(x):
        return x if (x.startswith("stage") or x.startswith("data/") or x.startswith("@EXT@")) else "stage%d.%s" % (stage, x)

    for x in refs:
        for y in refs:
            if x == y or x not in args.split():
                continue
            if len(absolute(x)) == len(absolute(y)) and y.endswith(x) and len(y) > len(x):
                before = y[len(y) - len(x) - 1]
                if not (before.isalnum() or before == "_"):
                    return True
    return False


def _comp(case, judged):
    st, name = judged.split(".", 1)
    return next(c for c in case["doc"]["components"] if c["name"] == name and "stage%d" % c.get("stage", 0) == st)


# ----------------------------------------------------------------------------- family B
#
# "consume files with equal contents": contents are BYTES.  E and E' differ in the bytes of ONE referenced file, changed
# minimally in a way a text-mode / decoding / normalising reader would not see (checks/_c16_gen.py BYTE_KINDS), the file
# being consumed through each route the check uses.  Demanded (statement only):
#   bytes of the referenced file changed                      -> strong must differ; fuzzy must be EQUAL when the file is
#                                                                produced by another component ("ignores the contents of
#                                                                files produced by other components"), no claim otherwise
#   the same bytes under another file name (reference updated) -> strong must be equal (equal arguments after each
#                                                                reference is replaced by the hash of its content, files
#                                                                with equal contents through equal methods)
#   siblings of ONE experiment that differ only in which file they name: other bytes -> differ, same bytes -> equal
# File contents are byte-strings (code points 0..255), written with .encode('latin-1').

B_ROUTES = ["data-ref-on-cmdline", "data-copy-off-cmdline", "data-link-off-cmdline", "external-ref-on-cmdline",
            "external-copy-off-cmdline", "producer-file-ref-on-cmdline", "producer-file-copy-off-cmdline",
            "producer-file-link-off-cmdline", "producer-file-output", "producer-stdout-output"]
B_FILES = ["table.csv", "in.dat", "blob.bin", "notes.txt", "cfg"]


def _b_ref(sym: Dict[str, Any], fn: str) -> str:
    route = sym["route"]
    method = "output" if route.endswith("output") else route.split("-")[-3] if route.endswith("cmdline") else "ref"
    if route.startswith("data-"):
        return "data/%s:%s" % (fn, method)
    if route.startswith("external-"):
        return "@EXT@/%s:%s" % (fn, method)
    if route == "producer-stdout-output":
        return "stage0.%s:output" % sym["producer"]
    return "stage0.%s/%s:%s" % (sym["producer"], fn, method)


def _b_component(sym: Dict[str, Any], name: str, fn: str) -> Dict[str, Any]:
    ref = _b_ref(sym, fn)
    on_cmdline = sym["route"].endswith("on-cmdline") or sym["route"].endswith("output")
    refs = [ref] + list(sym["more_refs"])
    toks = [sym["lits"][0]] + ([ref] if on_cmdline else []) + list(sym["more_refs"]) + [sym["lits"][1]]
    return {"name": name, "stage": 1, "references": refs,
            "command": {"executable": sym["exe"], "arguments": " ".join(toks)}}


def _b_build(sym: Dict[str, Any]) -> Dict[str, Any]:
    route = sym["route"]
    comps = [{"name": sym["producer"], "stage": 0, "command": {"executable": "echo", "arguments": "made"}},
             _b_component(sym, sym["t"], sym["fn"])]
    data = {"data/aux.txt": "aux\n"}
    external: Dict[str, str] = {}
    outputs = {"stage0.%s" % sym["producer"]: {"out.txt": "O", "out.stdout": "S"}}
    store = data if route.startswith("data-") else external if route.startswith("external-") else None
    if store is not None:
        key = (lambda f: "data/" + f) if store is data else (lambda f: f)
        store[key(sym["fn"])] = sym["content"]
        # siblings: the same definition naming a file with OTHER bytes / a file with the SAME bytes
        store[key(sym["fn_diff"])] = sym["content_diff"]
        store[key(sym["fn_same"])] = sym["content"]
        comps.append(_b_component(sym, sym["t_diff"], sym["fn_diff"]))
        comps.append(_b_component(sym, sym["t_same"], sym["fn_same"]))
    elif route == "producer-stdout-output":
        outputs["stage0.%s" % sym["producer"]]["out.stdout"] = sym["content"]
    else:
        outputs["stage0.%s" % sym["producer"]][sym["fn"]] = sym["content"]
    for c in comps[1:]:
        outputs["stage1.%s" % c["name"]] = {"out.txt": "OT", "out.stdout": "ST"}
    return _mat({"components": comps}, data=data, external=external, outputs=outputs, where=sym["where"])


def gen_bytes(r: random.Random, index: int) -> Dict[str, Any]:
    kinds = _gen.BYTE_KINDS
    kind = kinds[index % len(kinds)]
    route = B_ROUTES[(index // len(kinds) * 3 + index) % len(B_ROUTES)] if r.random() < 0.8 else r.choice(B_ROUTES)
    c1 = _gen.byte_base(kind, r)
    c2 = _gen.byte_edit(c1, kind, r)
    assert c2 is not None and c2 != c1, kind
    names = r.sample(NAMES, 4)
    fns = r.sample(B_FILES, 4)
    sym = {"route": route, "kind": kind, "content": c1, "content_diff": c2, "fn": fns[0], "fn_diff": fns[1],
           "fn_same": fns[2], "producer": names[0], "t": names[1], "t_diff": names[2], "t_same": names[3],
           "exe": r.choice(EXES), "lits": [r.choice(LITS), r.choice(LITS)],
           "more_refs": ["data/aux.txt:ref"] if r.random() < 0.4 else [], "where": "A"}
    E = _b_build(sym)
    judged = "stage1.%s" % sym["t"]
    produced = route.startswith("producer-")
    detail = {"kind": kind, "route": route, "file": _b_ref(sym, sym["fn"]), "bytes_E": len(c1), "bytes_E_prime": len(c2)}
    variants = [{"id": "B1-bytes-of-a-referenced-file-changed", "case": _b_build(dict(sym, content=c2, where="B")),
                 "strong": DIFFER, "fuzzy": EQUAL if produced else NOCLAIM, "detail": detail}]
    if route != "producer-stdout-output":
        variants.append({"id": "B2-same-bytes-under-another-file-name", "case": _b_build(dict(sym, fn=fns[3], where="B")),
                         "strong": EQUAL, "fuzzy": NOCLAIM, "detail": dict(detail, renamed_to=fns[3])})
    if not produced:
        variants.append({"id": "B5-sibling-names-a-file-with-other-bytes", "case": None, "within": True,
                         "judged_prime": "stage1.%s" % sym["t_diff"], "strong": DIFFER, "fuzzy": NOCLAIM,
                         "detail": dict(detail, sibling_file=sym["fn_diff"])})
        variants.append({"id": "B6-sibling-names-a-file-with-the-same-bytes", "case": None, "within": True,
                         "judged_prime": "stage1.%s" % sym["t_same"], "strong": EQUAL, "fuzzy": NOCLAIM,
                         "detail": dict(detail, sibling_file=sym["fn_same"])})
    return {"fam": "B", "index": index, "E": E, "judged": judged, "variants": variants,
            "klass": "B:%s:%s:more%d" % (kind, route, len(sym["more_refs"]))}
