"""C10 - Command-line reference substitution is exact.

Workload: small experiments (REAL package -> instance directory on disk) whose producers carry
collision-prone names (prefix / suffix / infix of each other, equal names in different stages) and
whose consumers mix :ref / :output references, in either spelling, with literal text.  Every
consumer is instantiated once per declaration order of its `references` (all permutations for
<= 4 references).  Boundary: ComponentSpecification.resolveArguments() of the REAL repository.
Oracle: by construction - the generator assembled the argument string from tokens and knows the value
of every token (path inside the instance / content it wrote into the referenced file).

Slices: 'clean' (overlapping names, but sequential substitution cannot go wrong - any discrepancy is a
VIOLATION), 'hazard' (overlap pairs planted; a discrepancy that is exactly the known mechanism is a
KNOWN-FINDING), 'mixed' (chance), 'trailsep' (as 'clean', and every case uses a :ref reference whose producer is spelled
with a trailing separator before the method - `P/:ref`, `stageN.P/:ref`, i.e. an empty file part -, alone or next to a
reference to the same-named producer of the consumer's own stage).
"""
import json
import os
import shutil
import sys

import warnings

import vlib

warnings.simplefilter("ignore", SyntaxWarning)   # the repository's own regex literals
vlib.bootstrap()

from checks import _c10_model as M  # noqa: E402

PROP = "C10"
KEY_INSIDE = "C10:spelling-inside-other-reference"
KEY_BOTH = "C10:both-spellings-of-one-reference"


def build(exp_model, root):
    import yaml
    import experiment.model.storage
    import experiment.model.data
    pkg = os.path.join(root, "p.package")
    os.makedirs(os.path.join(pkg, "conf"))
    with open(os.path.join(pkg, "conf", "flowir_package.yaml"), "w") as f:
        yaml.safe_dump(M.to_flowir(exp_model), f)
    os.makedirs(os.path.join(pkg, "data"))
    for name, content in (exp_model["data"] or {"placeholder.txt": "x"}).items():
        with open(os.path.join(pkg, "data", name), "w") as f:
            f.write(content)
    ep = experiment.model.storage.ExperimentPackage.packageFromLocation(pkg)
    e = experiment.model.data.Experiment.experimentFromPackage(ep, location=root)
    return e, e.instanceDirectory.location


def populate(exp_model, e, inst):
    """Harness side: give every producer the stdout / files whose content the oracle knows."""
    for p in exp_model["producers"]:
        wd = e.instanceDirectory.workingDirectoryForComponent(p["stage"], p["name"])
        if os.path.normpath(wd) != os.path.normpath("%s/stages/stage%d/%s" % (inst, p["stage"], p["name"])):
            raise RuntimeError("harness: unexpected working directory layout %s" % wd)
        spec = e.graph.nodes["stage%d.%s" % (p["stage"], p["name"])]["componentSpecification"]
        with open(spec.path_to_stdout(), "w") as f:
            f.write(p["stdout"])
        for rel, content in p["files"].items():
            path = os.path.join(wd, rel)
            os.makedirs(os.path.dirname(path), exist_ok=True)
            with open(path, "w") as f:
                f.write(content)


def class_key(exp_model, case, hz):
    prods = exp_model["producers"]
    meth = sorted({r["method"] for r in case["refs"]})
    kinds = sorted({r["kind"] for r in case["refs"]})
    sp = sorted({t[2] for t in case["args"] if t[0] == "ref"})
    repeated = len([t for t in case["args"] if t[0] == "ref"]) > len({t[1] for t in case["args"] if t[0] == "ref"})
    cross = any(r["kind"] == "comp" and prods[r["p"]]["stage"] != case["stage"] for r in case["refs"])
    files = sorted({"file" if r.get("file") else "dir" for r in case["refs"] if r["kind"] == "comp"})
    return json.dumps([min(len(case["refs"]), 5), "output" in meth, kinds, sp, cross,
                       M.name_relations(exp_model), sorted({h["kind"] for h in M.overlaps(exp_model, case)}),
                       bool(hz), M.trailing_separator_kind(exp_model, case)])


def judge_exp(exp_model, w, mode):
    root = vlib.mkscratch("c10")
    try:
        try:
            e, inst = build(exp_model, root)
        except Exception as x:
            # a valid experiment must instantiate; the loader's own tokenizer-based validation accepts these
            w.evaluated()
            w.count("experiments_not_instantiated")
            w.violation("valid experiment could not be instantiated: %s: %s" % (type(x).__name__, str(x)[:300]),
                        {"mode": mode, "exp": exp_model, "flowir": M.to_flowir(exp_model)}, finding_key=None)
            return
        try:
            populate(exp_model, e, inst)
        except Exception as x:
            w.note_inconclusive("harness could not populate the instance: %r" % (x,))
            return
        w.count("experiments_built")
        for ci, case in enumerate(exp_model["cases"]):
            hz = M.hazards(exp_model, case)
            results = {}
            bad = []
            for pi, perm in enumerate(case["perms"]):
                nid = "stage%d.%s" % (case["stage"], M.consumer_name(ci, pi))
                spec = e.graph.nodes[nid]["componentSpecification"]
                unres, unused = [], []
                try:
                    got = spec.resolveArguments(unresolved=unres, unused=unused)
                except Exception as x:
                    got = "<raised %s: %s>" % (type(x).__name__, str(x)[:200])
                results[pi] = got
                w.count("resolutions_judged")
                if not M.match_resolved(exp_model, case, inst, got):
                    sim = M.simulate(exp_model, case, perm, inst)
                    bad.append({"perm": perm, "got": got.replace(inst, "$INST"), "is_sequential_substitution": got == sim,
                                "unused": len(unused), "unresolved": len(unres)})
            w.evaluated()
            w.count("cases_" + mode)
            w.count("cases_with_hazard" if hz else "cases_without_hazard")
            if not hz and M.overlaps(exp_model, case):
                w.count("cases_overlap_harmless_for_every_order")
            if not hz and M.name_relations(exp_model):
                w.count("cases_without_hazard_with_overlapping_names")
            w.count("declaration_orders_judged", len(case["perms"]))
            if len(case["refs"]) <= 4:
                w.count("cases_all_permutations")
            if any(r["method"] == "output" for r in case["refs"]):
                w.count("cases_with_output_reference")
            if any(t[0] == "ref" and t[2] == "rel" for t in case["args"]):
                w.count("cases_with_relative_spelling")
            tsk = M.trailing_separator_kind(exp_model, case)
            if tsk:
                w.count("cases_with_trailing_separator_reference")
                if tsk == "next-to-same-name":
                    w.count("cases_trailing_separator_next_to_same_named_producer")
                if not hz:
                    w.count("cases_trailing_separator_without_hazard")
            w.distinct(class_key(exp_model, case, hz))
            order_dependent = len(set(results.values())) > 1
            if not bad and not order_dependent:
                w.count("cases_conforming")
                w.sample({"mode": mode, "stage": case["stage"], "arguments": M.args_string(exp_model, case),
                          "references": [M.ref_spell(exp_model, case, ri, "abs") for ri in range(len(case["refs"]))],
                          "orders": len(case["perms"]),
                          "resolved": results[0].replace(inst, "$INST")})
                continue
            w.count("cases_discrepant")
            if order_dependent:
                w.count("cases_order_dependent")
            key = None
            if hz and bad and all(b["is_sequential_substitution"] for b in bad):
                kinds = {h["kind"] for h in hz}
                key = KEY_BOTH if kinds == {"both-spellings-of-one-reference"} else KEY_INSIDE
            first = bad[0] if bad else {"perm": None, "got": "results differ between declaration orders"}
            what = "arguments %r resolved to %r for declaration order %s (expected %r)%s" % (
                M.args_string(exp_model, case), first["got"][:200], first["perm"],
                M.expected_string(exp_model, case, "$INST")[:200],
                "; result depends on declaration order" if order_dependent else "")
            w.violation(what, {"mode": mode, "exp": exp_model, "case_index": ci, "hazards": hz[:6],
                               "flowir_consumer": {"stage": case["stage"], "arguments": M.args_string(exp_model, case),
                                                   "references_in_first_bad_order": [
                                                       M.ref_spell(exp_model, case, ri, case["refs"][ri].get("decl", "abs"))
                                                       for ri in (first["perm"] or [])]},
                               "expected": M.expected_string(exp_model, case, "$INST"),
                               "bad_orders": bad[:6], "orders_total": len(case["perms"]),
                               "order_dependent": order_dependent}, finding_key=key)
    finally:
        shutil.rmtree(root, ignore_errors=True)


def run_job(job, w):
    w.max_samples = 1
    for idx in range(job["start"], job["start"] + job["count"]):
        rng = vlib.rng(PROP, job["mode"], idx)
        judge_exp(M.gen_exp(rng, job["mode"], n_cases=job["cases"]), w, job["mode"])


if "--worker" in sys.argv:
    vlib.worker_main(run_job)


def vlib_scale():
    """VERIF_SCALE (default 1): shrink/grow plan AND floors proportionally (recorded in the evidence)."""
    try:
        return max(0.01, float(os.environ.get("VERIF_SCALE", "1")))
    except ValueError:
        return 1.0


def main():
    c = vlib.Check(
        PROP, "exploration",
        rule="evaluation = one consumer argument string judged under all its declaration orders; distinct = structural "
             "class (#references capped 5, uses :output, direct/component kinds, spellings used, "
             "cross-stage producers, textual relations between producer names, overlap kinds, hazard, "
             "trailing-separator reference none/alone/next-to-same-name)",
        assumptions=[
            "producer names follow the DSL name alphabet, do not end in a digit, are not reserved folder names",
            "stage-less spelling is only used for producers of the consumer's own stage (FlowIR reads a stage-less "
            "spelling as 'same stage'); every reference token is delimited by characters outside [A-Za-z0-9._/-]",
            "literal text and file contents contain no ':' and no '%' (no text that is itself a reference or a variable)",
            "only :ref and :output references appear in argument strings; copy/link references are declared only",
            "a single trailing newline of an :output file may or may not be kept (both accepted)",
            "a reference with an empty file part (`P/:ref`) is only generated for method ref; its value is the "
            "producer's working directory, with or without the trailing separator (both accepted)",
        ])
    rp = vlib.load_replay(sys.argv)
    if rp is not None:
        w = vlib.Worker()
        em = dict(rp["witness"]["exp"])
        if "case_index" in rp["witness"]:
            em["cases"] = [em["cases"][rp["witness"]["case_index"]]]
        judge_exp(em, w, rp["witness"].get("mode", "replay"))
        c.merge_worker(w.summary())
        print("replay: %s" % ("still discrepant" if w.violations else "no longer discrepant"))
        sys.exit(c.finish())
    thorough = vlib.tier() == "thorough"
    plan = [("clean", 110), ("hazard", 50), ("mixed", 40), ("trailsep", 30)] if not thorough else \
        [("clean", 1800), ("hazard", 700), ("mixed", 700), ("trailsep", 400)]
    scale = vlib_scale()
    if scale != 1.0:
        plan = [(m, max(10, int(n * scale))) for m, n in plan]
        c.extra["plan_scale"] = scale
    per = 10 if not thorough else 40
    jobs = []
    for mode, n in plan:
        for s in range(0, n, per):
            jobs.append({"mode": mode, "start": s, "count": min(per, n - s), "cases": 3})
    vlib.fanout("checks.C10", jobs, c, timeout=3000 if thorough else 600)
    if c.counters.get("violations_dropped_over_200"):
        c.note_inconclusive("a worker dropped violation records (cap 200): an unclassified one may be among them")
    total = sum(n for _, n in plan)
    c.floor("experiments_built", total - total // 20)
    c.floor("evaluations", total * 3 - total // 5)
    c.floor("declaration_orders_judged", total * 3 * 6)
    for name, q, t in [("cases_without_hazard_with_overlapping_names", 150, 3000), ("cases_all_permutations", 100, 2000),
                       ("cases_with_output_reference", 100, 2000), ("cases_with_relative_spelling", 60, 1200),
                       ("cases_with_trailing_separator_reference", 70, 900),
                       ("cases_trailing_separator_without_hazard", 50, 700),
                       ("cases_trailing_separator_next_to_same_named_producer", 25, 350)]:
        c.floor(name, int((t if thorough else q) * min(1.0, scale)))
    sys.exit(c.finish())


if __name__ == "__main__":
    main()
