"""C18 - staging and deployment never write outside their target directory.

Workload: generated tar archives (members with parent-directory segments, absolute names,
symlink members followed by members written through them, hard links to outside files that are
then overwritten, two archives of which the first plants the symlink, fifo members, deep / odd
names, benign controls; DIRECTORY references :link/:copy/:copyout to component and package
directories in every order, with equal / different last path elements and with the destination name
absent / a file / a directory / a symlink to inside / a symlink to outside: family dirrefs_*;
link members at depth under both readings of their link name; symlink
members that resolve INSIDE the working directory followed by a member that leaves it only through
that link - 'up -> .', 'up/../x' - as file, directory, symlink, hard link, hard-link name or second
symlink: family linkhop_*), link+copy reference sets (directories containing outward symlinks, a
':copy' whose basename equals an already staged ':link'), staged through the REAL
``Job.stageIn`` of a real experiment; and generated manifests (keys with ``..`` segments, absolute
keys, keys nested under a linked entry, a linked ``conf``, benign controls, :copy and :link)
deployed through ``ExperimentPackage.packageFromLocation`` + ``expandPackageToDirectory`` /
``ExperimentInstanceDirectory.newInstanceDirectory``.

Two monitors run at once: the audit-hook effect recorder (fsmon.audit: every writing open, mkdir,
symlink, link, rename, remove, chmod/chown/utime ... with the location the effect lands on) and a
recursive snapshot (fsmon.tree) of the whole sandbox minus the target directory before/after.

Oracle: (1) no recorded effect and no snapshot change outside the component working directory /
the new instance directory (for newInstanceDirectory also its shadow directory); (2) an input that
is offending by construction is rejected with DataReferenceCouldNotStageError (staging) / an
experiment.model.errors.FlowException such as PackageCreateError, InstanceCreateError or a
manifest error (deployment).
"""
from __future__ import annotations

import getpass
import os
import shutil
import sys
import warnings

warnings.filterwarnings("ignore", category=SyntaxWarning)

import vlib  # noqa: E402

vlib.bootstrap()

from checks import _c18_gen as G  # noqa: E402

PROP = "C18"
K_TAR_DOTDOT = "C18:tar-member-parent-segments-not-normalised"
K_TAR_SYMLINK = "C18:tar-write-through-symlink-member"
K_TAR_HARDLINK = "C18:tar-hardlink-to-outside-overwritten"
K_COPY_LINK = "C18:copy-written-through-staged-link-of-same-name"
K_MAN_DOTDOT = "C18:manifest-key-parent-segments"
K_MAN_LINK = "C18:manifest-entry-written-through-linked-entry"

STAGE_FLOWIR = """
components:
- name: ext
  command:
    executable: echo
    arguments: hi
  references:
  - data/a.tar:extract
- name: ext2
  command:
    executable: echo
    arguments: hi
  references:
  - data/a.tar:extract
  - data/b.tar:extract
- name: cl
  command:
    executable: echo
    arguments: hi
  references:
  - data/d:link
  - data/f.txt:copy
  - data/dd:copy
- name: same
  command:
    executable: echo
    arguments: hi
  references:
  - data/p/same.txt:link
  - data/q/same.txt:copy
"""

DEPLOY_FLOWIR = """
components:
- name: hello
  command:
    executable: echo
    arguments: hi
"""


def _empty_dir(d):
    for n in os.listdir(d):
        p = os.path.join(d, n)
        if os.path.isdir(p) and not os.path.islink(p):
            shutil.rmtree(p)
        else:
            os.remove(p)


def _rm(p):
    if os.path.islink(p) or os.path.isfile(p):
        os.remove(p)
    elif os.path.isdir(p):
        shutil.rmtree(p)
    elif os.path.lexists(p):
        os.remove(p)


class World:
    """A sandbox with known contents that can be put back after a case escaped."""

    def __init__(self, top):
        self.top = top
        self.baseline = None

    def freeze(self, skip):
        from fsmon import tree
        self.skip = list(skip)
        self.baseline = tree.snapshot(self.top, skip=self.skip)
        self.files = {}
        for rel, e in self.baseline.items():
            if e[0] == "file":
                with open(os.path.join(self.top, rel), "rb") as f:
                    self.files[rel] = (f.read(), e[3])

    def repair(self, changes):
        """Undo `changes` (diff against the baseline) so that the next case starts from it."""
        for ch in sorted(changes, key=lambda c: -len(c["path"])):
            p = os.path.join(self.top, ch["path"])
            if ch["change"] == "created":
                _rm(p)
        for ch in changes:
            p = os.path.join(self.top, ch["path"])
            if ch["change"] in ("modified", "removed", "nlink"):
                e = self.baseline[ch["path"]]
                if e[0] == "file":
                    _rm(p)
                    data, mode = self.files[ch["path"]]
                    os.makedirs(os.path.dirname(p), exist_ok=True)
                    with open(p, "wb") as f:
                        f.write(data)
                    os.chmod(p, mode)
                    os.utime(p, ns=(e[2], e[2]))
                elif e[0] == "dir":
                    if not os.path.isdir(p):
                        _rm(p)
                        os.makedirs(p)
                    os.chmod(p, e[1])
                elif e[0] == "link":
                    _rm(p)
                    os.symlink(e[1], p)


# ======================================================================================= staging

def _in_wd(members, wd):
    """Members with the working-directory placeholder of link targets filled in."""
    return [dict(m, target=m["target"].replace(G.WD_PLACEHOLDER, wd)) if G.WD_PLACEHOLDER in m.get("target", "") else m
            for m in members]


class StagingHarness:
    def __init__(self):
        if vlib.REPO not in sys.path:
            sys.path.insert(1, vlib.REPO)
        from tests import utils
        self.top = vlib.mkscratch("c18s")
        deep = os.path.join(self.top, "L1", "L2", "L3", "L4", "L5", "L6")
        os.makedirs(deep)
        self.exp = utils.experiment_from_flowir(
            STAGE_FLOWIR, deep, checkExecutables=False,
            extra_files={"data/a.tar": "placeholder", "data/b.tar": "placeholder", "data/f.txt": "F",
                         "data/d/x": "X", "data/dd/y": "Y", "data/p/same.txt": "P-ORIGINAL", "data/q/same.txt": "Q-COPY"})
        self.inst = self.exp.instanceDirectory.location
        self.shadow = os.path.dirname(os.path.realpath(os.path.join(self.inst, "output")))
        self.jobs = {n: self.exp.findJob(0, n) for n in ("ext", "ext2", "cl", "same")}
        # a place outside every working directory, with a victim file
        self.outside = os.path.join(self.inst, "input")
        with open(os.path.join(self.outside, "victim.txt"), "w") as f:
            f.write("VICTIM CONTENT")
        os.utime(os.path.join(self.outside, "victim.txt"), (1600000000, 1600000000))
        # one victim next to every ancestor of the working directories (targets of '../' * k + 'victim.txt')
        anc = os.path.dirname(self.jobs["ext"].workingDirectory.path)
        for k in range(6):
            with open(os.path.join(anc, "victim.txt"), "w") as f:
                f.write("VICTIM %d LEVELS ABOVE THE WORKING DIRECTORY" % (k + 1))
            os.utime(os.path.join(anc, "victim.txt"), (1600000000, 1600000000))
            anc = os.path.dirname(anc)
        self.world = World(self.top)

    def close(self):
        shutil.rmtree(self.top, ignore_errors=True)
        if self.shadow.endswith(".shadow"):
            shutil.rmtree(self.shadow, ignore_errors=True)

    def levels_up_available(self):
        wd = self.jobs["ext"].workingDirectory.path
        return len(os.path.relpath(wd, self.top).split(os.sep)) - 1

    def gen(self, idx, family=None):
        if family == "linkhop":     # harmless link member + a member that only leaves through it, every combination
            return G.gen_link_hop_case(idx, idx)
        if idx % 9 == 8:      # 9 is coprime to the number of archive classes (17): every class keeps appearing
            c = G.gen_copylink_case(idx)
            if idx % 2 == 0:
                c.update({"cls": "same_basename_link_then_copy", "component": "same", "offending": True})
            return c
        if idx % 9 in (2, 5):     # link members at depth, every (kind, depth, parent segments, followed) combination
            return G.gen_link_depth_case(idx, (idx // 9) * 2 + (0 if idx % 9 == 2 else 1))
        wd = self.jobs["ext"].workingDirectory.path
        return G.gen_archive_case(idx, self.levels_up_available(), self.outside, os.path.relpath(self.outside, wd), wd)

    def prepare(self, case):
        job = self.jobs[case["component"]]
        wd = job.workingDirectory.path
        _empty_dir(wd)
        job.isStaged = False
        data = os.path.join(self.inst, "data")
        if case["kind"] == "archive":
            G.write_tar(os.path.join(data, "a.tar"), _in_wd(case["members"], wd), case["compress"], case["format"])
            if case["second"] is not None:
                G.write_tar(os.path.join(data, "b.tar"), _in_wd(case["second"], wd), "", case["format"])
        elif case["cls"] == "copy_dir_with_outward_symlinks":
            dd = os.path.join(data, "dd")
            _empty_dir(dd)
            for i in range(case["n_files"]):
                with open(os.path.join(dd, "y%d" % i), "w") as f:
                    f.write("Y%d" % i)
            tgt = self.outside if case["outward"] == "abs" else os.path.relpath(self.outside, os.path.join(wd, "dd"))
            os.symlink(tgt, os.path.join(dd, "outward_dir"))
            os.symlink(os.path.join(tgt, "victim.txt"), os.path.join(dd, "outward_file"))
        return job, wd

    def run(self, case, w):
        import experiment.model.errors as E
        from fsmon import audit, tree
        job, wd = self.prepare(case)
        self.world.freeze(skip=[wd])
        raised = None
        with audit.Recorder() as rec:
            try:
                job.stageIn()
            except BaseException as e:
                raised = e
        after = tree.snapshot(self.top, skip=[wd])
        changes = tree.diff(self.world.baseline, after)
        out_events = audit.confirmed(audit.outside(rec.events, [wd]))
        w.count("outside_attempts_without_effect", len(audit.outside(rec.events, [wd])) - len(out_events))
        verdicts = judge(case, raised, changes, out_events, rec, wd, E.DataReferenceCouldNotStageError,
                         "DataReferenceCouldNotStageError", w)
        self.world.repair(changes)
        if case["kind"] == "copylink" and case["cls"] == "copy_dir_with_outward_symlinks":
            dd = os.path.join(self.inst, "data", "dd")
            _empty_dir(dd)
            with open(os.path.join(dd, "y"), "w") as f:
                f.write("Y")
        return verdicts


class DirRefHarness(StagingHarness):
    """Directory references (:link / :copy / :copyout) to component working directories and package
    directories, staged by the real Job.stageIn of one consumer out of a fixed set (G.dirref_consumers)."""

    def __init__(self):
        if vlib.REPO not in sys.path:
            sys.path.insert(1, vlib.REPO)
        from tests import utils
        self.top = vlib.mkscratch("c18r")
        deep = os.path.join(self.top, "L1", "L2")
        os.makedirs(deep)
        self.exp = utils.experiment_from_flowir(
            G.dirref_flowir(), deep, checkExecutables=False,
            extra_files={"data/ra/results/energies.csv": "x", "data/rb/results/energies.csv": "x",
                         "data/rb/tables/energies.csv": "x"})
        self.inst = self.exp.instanceDirectory.location
        self.shadow = os.path.dirname(os.path.realpath(os.path.join(self.inst, "output")))
        self.jobs = {c["name"]: self.exp.findJob(0, c["name"]) for c in G.dirref_consumers()}
        self.outside = os.path.join(self.inst, "input")
        # a directory of another producer that no reference names (target of pre-existing outward links)
        self.private = os.path.join(self.inst, "stages", "stage0", "pb", "private")
        for d in (self.outside, self.private):
            os.makedirs(d, exist_ok=True)
            for n in ("victim.txt", "energies.csv"):
                with open(os.path.join(d, n), "w") as f:
                    f.write("VICTIM CONTENT")
                os.utime(os.path.join(d, n), (1600000000, 1600000000))
        self.world = World(self.top)

    def gen(self, idx, family=None):
        return G.gen_dirref_case(idx)

    def prepare(self, case):
        job = self.jobs[case["component"]]
        wd = job.workingDirectory.path
        _empty_dir(wd)
        job.isStaged = False
        for key, (_ref, _cat, _base, rel) in G.DIRREF_SOURCES.items():
            if key == "A_whole":
                continue
            d = os.path.join(self.inst, rel)
            _rm(d)
            os.makedirs(d)
            for m in case["contents"].get(key, [{"name": "energies.csv", "data": "default of %s" % key}]):
                p = os.path.join(d, m["name"])
                k = m.get("kind", "file")
                if k == "dir":
                    os.makedirs(p, exist_ok=True)
                elif k == "sym":
                    if not os.path.lexists(p):
                        os.symlink(m["target"].replace("<OUTSIDE>", self.outside), p)
                else:
                    os.makedirs(os.path.dirname(p), exist_ok=True)
                    with open(p, "w") as f:
                        f.write(m.get("data", ""))
        kind, name = case["dest_kind"], case["pre_name"]
        if kind != "absent":
            p = os.path.join(wd, name)
            if kind == "file":
                with open(p, "w") as f:
                    f.write("left by an earlier staging")
            elif kind == "directory":
                os.makedirs(os.path.join(p, "old"))
                with open(os.path.join(p, "energies.csv"), "w") as f:
                    f.write("left by an earlier staging")
            else:
                if kind == "symlink_inside":
                    real = os.path.join(wd, ".kept_real")
                    os.makedirs(real)
                else:
                    real = self.outside if case["outside_target"] == "input" else self.private
                os.symlink(real if case["link_spelling"] == "abs" else os.path.relpath(real, wd), p)
        return job, wd


# ==================================================================================== deployment

class DeployHarness:
    def __init__(self):
        self.top = vlib.mkscratch("c18d")
        self.n = 0
        self.shadows = []

    def close(self):
        shutil.rmtree(self.top, ignore_errors=True)
        for s in self.shadows:
            shutil.rmtree(s, ignore_errors=True)

    def gen(self, idx, family=None):
        return G.gen_manifest_case(idx, 3)

    def run(self, case, w):
        import experiment.model.errors as E
        import experiment.model.storage as ST
        import experiment.model.frontends.flowir as F
        from fsmon import audit, tree
        self.n += 1
        sb = os.path.join(self.top, "case%d" % self.n)
        pkg = os.path.join(sb, "pkg")
        os.makedirs(pkg)
        wf = os.path.join(pkg, "wf.yaml")
        with open(wf, "w") as f:
            f.write(DEPLOY_FLOWIR)
        for s in ("src1", "src2"):
            os.makedirs(os.path.join(pkg, s, "sub"))
            for name in ("f.txt", "sub/g.txt"):
                with open(os.path.join(pkg, s, name), "w") as f:
                    f.write("%s/%s" % (s, name))
        location = os.path.join(sb, "deploy", "D1", "D2", "D3")
        os.makedirs(location)
        absdir = os.path.join(sb, "abs_area")
        os.makedirs(absdir)
        manifest = {}
        for key, src, method in case["entries"]:
            key = key.replace("<ABS>", absdir)
            manifest[key] = src + (":" + method if method else "")
        name = "my%d" % os.getpid()      # unique per worker: its shadow directories can be told apart
        target = os.path.join(location, name + ".instance")
        allowed = [target]
        before = tree.snapshot(sb)
        raised = None
        made = None
        with audit.Recorder() as rec:
            try:
                if case["via"] == "manifest_file":
                    mf = os.path.join(pkg, "manifest.yaml")
                    with audit.Recorder():      # writing the input file is the harness, not the deployment
                        with open(mf, "w") as f:
                            F.yaml_dump(manifest, f)
                    before = tree.snapshot(sb)
                    p = ST.ExperimentPackage.packageFromLocation(wf, manifest=mf)
                else:
                    p = ST.ExperimentPackage.packageFromLocation(wf, manifest=dict(manifest))
                if case["via"] == "newInstanceDirectory":
                    made = ST.ExperimentInstanceDirectory.newInstanceDirectory(location, p, stamp=False, name=name)
                else:
                    p.expandPackageToDirectory(target, p.configuration.file_format)
            except BaseException as e:
                raised = e
        if case["via"] == "newInstanceDirectory":
            shadow_root = os.path.join("/tmp", "chpc-%s-shadow" % getpass.getuser())
            allowed.append(shadow_root)
            for n in os.listdir(shadow_root) if os.path.isdir(shadow_root) else []:
                if n.startswith(name + "-") and n.endswith(".shadow"):
                    self.shadows.append(os.path.join(shadow_root, n))
        after = tree.snapshot(sb)
        rel_target = os.path.relpath(target, sb)
        changes = [c for c in tree.diff(before, after)
                   if not (c["path"] == rel_target or c["path"].startswith(rel_target + os.sep))]
        out_events = audit.confirmed(audit.outside(rec.events, allowed))
        w.count("outside_attempts_without_effect", len(audit.outside(rec.events, allowed)) - len(out_events))
        verdicts = judge(case, raised, changes, out_events, rec, target, E.FlowException,
                         "experiment.model.errors.FlowException (PackageCreateError, InstanceCreateError, manifest errors)", w,
                         manifest=manifest)
        shutil.rmtree(sb, ignore_errors=True)
        return verdicts


# ======================================================================================== oracle

def classify(case, changes, out_events, raised):
    """Known-finding classifier: structural, over the case class and what was observed."""
    cls = case["cls"]
    created_outside = any(c["change"] == "created" for c in changes) or bool(out_events)
    if case["kind"] == "archive":
        names = [m["name"] for m in case["members"]] + [m["name"] for m in (case["second"] or [])]
        has_dotdot = any(".." in n.split("/") and not n.startswith("/") for n in names)
        has_sym = any(m.get("kind") == "sym" for m in case["members"])
        has_hard = any(m.get("kind") == "hard" for m in case["members"])
        if cls in ("dotdot", "dotdot_existing_dir", "dotdot_nested") and has_dotdot and not has_sym and not has_hard:
            return K_TAR_DOTDOT
        if cls in ("sym_abs_then_file", "sym_rel_then_file", "sym_chain_then_file", "two_archives_sym_then_file") \
                and has_sym and not has_dotdot_beyond_links(case):
            return K_TAR_SYMLINK
        if cls == "hard_outside_then_overwrite" and has_hard and not has_sym:
            return K_TAR_HARDLINK
    # narrow on purpose: only the FILE-reference shape (component 'same': data/p/same.txt:link, data/q/same.txt:copy,
    # shutil.copy following the staged link). Directory references (kind 'dirrefs') never match.
    if case["kind"] == "copylink" and cls == "same_basename_link_then_copy" and case.get("component") == "same":
        if any(c["path"].endswith(os.path.join("data", "p", "same.txt")) for c in changes) or \
                any(e["effect"].endswith(os.path.join("data", "p", "same.txt")) for e in out_events):
            return K_COPY_LINK
    if case["kind"] == "manifest":
        keys = [e[0] for e in case["entries"]]
        dotdot = [k for k in keys if ".." in k.split("/") and not k.startswith("<ABS>")]
        if cls in ("dotdot", "dotdot_nested", "dotdot_after_real_dir") and dotdot:
            return K_MAN_DOTDOT
        linked = {e[0] for e in case["entries"] if e[2] == "link"}
        if cls == "nested_under_link" and any(k.split("/")[0] in linked and "/" in k for k in keys) and not dotdot:
            return K_MAN_LINK
        if cls == "conf_linked" and "conf" in linked and not dotdot:
            return K_MAN_LINK
    return None


def has_dotdot_beyond_links(case):
    """True when a regular member name itself carries a '..' segment (then the symlink classifier does not apply)."""
    for m in case["members"] + (case["second"] or []):
        if m.get("kind", "file") == "file" and ".." in m["name"].split("/"):
            return True
    return False


def _hop_text(case):
    lk = case["link"]
    return ("symlink member '%s' -> '%s' resolves inside the working directory; the %s behind it climbs %d level(s) "
            "above the working directory only once that link exists on disk%s" % (
                lk["name"], lk["target"],
                {"file": "regular member", "dir": "directory member", "sym": "symlink member", "hardname": "hard-link member",
                 "hardtarget": "hard-link name (then overwritten)", "chain_followed": "second symlink (then written through)",
                 "chain_alone": "second symlink"}[case["mode"]],
                case["levels_above"], ", link planted by the first of two archives" if case["second"] is not None else ""))


def _dirref_text(case):
    return "directory references %s of component %s; <working dir>/%s before staging: %s%s" % (
        [x["reference"] for x in case["refs"]], case["component"], case["pre_name"] or "*", case["dest_kind"],
        {"copy_through_staged_link_of_same_name": "; a :link is staged before a :copy/:copyout with the same last path "
                                                   "element, the copy goes through the staged link",
         "copy_through_preexisting_outward_link": "; the copy goes through the symlink that already occupies the name",
         "": ""}[case["offending_reason"]])


def judge(case, raised, changes, out_events, rec, target, err_class, err_name, w, manifest=None):
    w.count("cases_judged")
    w.count("audit_events_seen", len(rec.events))
    if rec.errors:
        w.note_inconclusive("audit monitor error: %s" % rec.errors[:2])
    res = []
    wit = {"case": case, "target": target, "raised": None if raised is None else "%s: %s" % (type(raised).__name__, str(raised)[:300]),
           "changes_outside_target": changes[:12], "effects_outside_target": out_events[:12]}
    if manifest is not None:
        wit["manifest"] = manifest
    # nlink-only changes are the creation of a hard link to an outside file: not a modification by itself
    real_changes = [c for c in changes if c["change"] != "nlink"]
    escaped = bool(real_changes or out_events)
    hop = case.get("family") == "linkhop"
    if escaped:
        w.count("escapes_observed")
        what = "%s %s '%s' %s outside %s: %s%s" % (
            "staging" if case["kind"] != "manifest" else "deployment", case["kind"], case["cls"],
            "wrote", "the working directory" if case["kind"] != "manifest" else "the instance directory",
            [(c["change"], c["path"]) for c in real_changes[:3]] or [(e["event"], e["effect"]) for e in out_events[:3]],
            "" if raised is not None else " and no error was raised")
        if hop:
            what += " [%s]" % _hop_text(case)
        if case.get("family") == "dirrefs":
            what += " [%s]" % _dirref_text(case)
        res.append((what, wit, classify(case, real_changes, out_events, raised)))
    else:
        w.count("confined")
    if hop:
        w.count("linkhop_%s" % ("really_outside" if case["really_outside"] else "really_inside"))
        if case["really_outside"]:
            w.count("linkhop_outside_%s" % ("escaped" if escaped else "confined"))
            w.count("linkhop_outside_%s" % ("accepted" if raised is None else
                                            "rejected_with_expected_error" if isinstance(raised, err_class) else
                                            "rejected_with_other_error"))
        else:
            w.count("linkhop_inside_%s" % ("accepted" if raised is None else "rejected"))
    if case.get("family") == "dirrefs":
        dk = case["dest_kind"]
        w.count("dirrefs_dest|%s" % dk)
        w.count("dirrefs_dest|%s|%s" % (dk, "accepted" if raised is None else "rejected"))
        if escaped:
            w.count("dirrefs_dest|%s|escaped" % dk)
        for x in case["refs"]:
            w.count("dirrefs_ref|%s|%s" % (x["category"], x["method"]))
        if case["offending"] is True:
            w.count("dirrefs_offending|%s" % case["offending_reason"])
            w.count("dirrefs_offending|%s|%s" % (case["offending_reason"], "accepted" if raised is None else "rejected"))
    if case["offending"] is True:
        w.count("offending_cases")
        if raised is None:
            if not escaped:
                res.append(("offending %s '%s' was accepted without any error (nothing observed outside)%s" % (
                    case["kind"], case["cls"], " [%s]" % _hop_text(case) if hop else ""), wit, None))
        elif not isinstance(raised, err_class):
            res.append(("offending %s '%s' was rejected with %s instead of %s" % (
                case["kind"], case["cls"], type(raised).__name__, err_name), wit, None))
            w.count("rejected_with_other_error")
        else:
            w.count("offending_rejected_with_expected_error")
    elif case["offending"] is False:
        w.count("benign_cases")
        w.count("benign_accepted" if raised is None else "benign_rejected")
        if raised is not None:
            w.count("benign_rejected|%s|%s" % (case["cls"], type(raised).__name__))
    else:
        w.count("unjudged_acceptance_cases")
        w.count("unjudged_%s" % ("accepted" if raised is None else "rejected"))
    return res


# ======================================================================================== driver

def run_job(job, w):
    h = DirRefHarness() if job.get("family") == "dirrefs" else \
        StagingHarness() if job["kind"] == "staging" else DeployHarness()
    try:
        for idx in range(job["lo"], job["hi"]):
            case = h.gen(idx, job.get("family"))
            verdicts = h.run(case, w)
            w.evaluated()
            w.count("%s_cases" % job.get("family", job["kind"]))
            fam = case.get("family")
            w.count("class|%s|%s" % (case["kind"],
                                     "linkhop_%s_%s" % (case["mode"], "outside" if case["really_outside"] else "inside")
                                     if fam == "linkhop" else
                                     "dirrefs_%s_%s" % (case["cls"].split("_")[2], case["dest_kind"]) if fam == "dirrefs" else
                                     case["cls"]))
            w.distinct("%s|%s|%s|%s" % (case["kind"], case["cls"], case.get("compress", case.get("via", "")),
                                        _shape(case)))
            if idx % 131 == 0:
                w.sample({"case": case, "verdicts": [v[0] for v in verdicts]})
            for what, wit, key in verdicts:
                emit(w, what, wit, key)
    finally:
        h.close()


def _shape(case):
    if case["kind"] == "archive":
        return "m%d|%s" % (min(len(case["members"]), 8), case["format"])
    if case["kind"] == "manifest":
        return "e%d|%s" % (len(case["entries"]), ",".join(sorted({e[2] or "default" for e in case["entries"]})))
    return case.get("outward", "")


def emit(w, what, wit, key):
    if key is not None:
        w.count("classified|" + key)
        if w.counters["classified|" + key] > 3:
            return
    w.violation(what, wit, key)


if "--worker" in sys.argv:
    vlib.worker_main(run_job)


def replay(c, rp):
    wit = rp["witness"]
    case = wit["case"]
    w = vlib.Worker()
    h = DeployHarness() if case["kind"] == "manifest" else DirRefHarness() if case["kind"] == "dirrefs" else StagingHarness()
    try:
        verdicts = h.run(case, w)
    finally:
        h.close()
    c.merge_worker(w.summary())
    c.evaluated(1)
    for what, witness, key in verdicts:
        c.violation(what, witness, key)
    print("replay of %s '%s': %s" % (case["kind"], case["cls"], "still violates" if verdicts else "no longer violates"))
    c.floors.clear()
    sys.exit(c.finish())


def main():
    c = vlib.Check(PROP, "exploration",
                   rule="distinct (input kind, structural class, compression or deployment path, member/entry-count and "
                        "format/method shape) classes",
                   assumptions=[
                       "an input is 'offending' by construction of the generator: carried out literally it creates or "
                       "modifies an entry outside the target; acceptance is judged only for those and for the plain "
                       "controls (classes whose literal effect depends on os.makedirs quirks, a lone symlink pointing "
                       "outside, fifo members, odd names, '..' that normalises inside are judged on confinement only)",
                       "creating a hard link inside the target to an outside file (link count of the outside file "
                       "changes) is not counted as a modification; overwriting it through the link is",
                       "effects are observed at the Python audit-event level plus a before/after snapshot of the "
                       "sandbox; changes outside the sandbox made by C code without audit events would be missed",
                       "for newInstanceDirectory the shadow directory /tmp/chpc-<user>-shadow is part of the target "
                       "by design of the runtime",
                       "metadata events (chmod/chown/utime) are resolved without following the last component",
                       "audit events fire before the operation: an outside effect counts only if lstat of its location "
                       "differs afterwards (a file created outside and removed again within one operation is missed)",
                   ])
    rp = vlib.load_replay(sys.argv)
    if rp:
        replay(c, rp)
    thorough = c.tier == "thorough"
    n_stage = 7000 if thorough else 480
    n_deploy = 4000 if thorough else 312
    jobs = []
    step = 350 if thorough else 40
    for lo in range(0, n_stage, step):
        jobs.append({"kind": "staging", "lo": lo, "hi": min(n_stage, lo + step)})
    # harmless link member + member leaving only through it: a multiple of the number of combinations
    n_combos = len(G.link_hop_combos())
    n_hop = n_combos * (12 if thorough else 1)
    step = 161 if thorough else 23
    for lo in range(0, n_hop, step):
        jobs.append({"kind": "staging", "family": "linkhop", "lo": lo, "hi": min(n_hop, lo + step)})
    # directory references: every consumer (reference set) under every pre-existing destination kind
    n_dir = len(G.dirref_consumers()) * len(G.DIRREF_DEST_KINDS) * (8 if thorough else 1)
    step = 185 if thorough else 37
    for lo in range(0, n_dir, step):
        jobs.append({"kind": "staging", "family": "dirrefs", "lo": lo, "hi": min(n_dir, lo + step)})
    step = 250 if thorough else 39
    for lo in range(0, n_deploy, step):
        jobs.append({"kind": "manifest", "lo": lo, "hi": min(n_deploy, lo + step)})
    vlib.fanout("checks.C18", jobs, c, timeout=900 if thorough else 240)
    c.floor("staging_cases", n_stage)
    c.floor("linkhop_cases", n_hop)
    c.floor("dirrefs_cases", n_dir)
    for dk in G.DIRREF_DEST_KINDS:
        c.floor("dirrefs_dest|%s" % dk, n_dir // 6)
    c.floor("dirrefs_offending|copy_through_staged_link_of_same_name", n_dir // 40)
    c.floor("dirrefs_offending|copy_through_preexisting_outward_link", n_dir // 12)
    for cat in ("component", "direct"):
        for m in G.DIRREF_METHODS:
            c.floor("dirrefs_ref|%s|%s" % (cat, m), n_dir // 10)
    c.floor("linkhop_really_outside", n_hop // 3)
    c.floor("linkhop_really_inside", n_hop // 4)
    c.floor("manifest_cases", n_deploy)
    c.floor("offending_cases", (n_stage + n_deploy) * 2 // 5)
    c.floor("benign_accepted", (n_stage + n_deploy) // 8)
    c.floor("audit_events_seen", (n_stage + n_deploy + n_hop) * 2)
    c.floor("cases_judged", n_stage + n_deploy + n_hop + n_dir)
    sys.exit(c.finish())


if __name__ == "__main__":
    main()
