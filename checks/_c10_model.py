"""C10 helper: generator of experiments whose consumers mix references (either spelling) with literal text,
the by-construction expected resolution, and - ONLY for slicing / recognising the known finding - the
structural overlap detector and a simulation of sequential textual substitution.

Model (JSON-able):
  exp  = {"producers": [{"name", "stage", "stdout": str, "files": {relpath: content}}],
          "data": {filename: content},
          "cases": [case...]}
  case = {"stage": int, "refs": [ref...], "args": [token...], "perms": [[indices into refs]...]}
  ref  = {"kind": "comp", "p": producer index, "file": None|str, "method": str, "decl": "abs"|"rel"}
         (file == "" is the producer spelled with a trailing separator before the method: `P/:ref`, `stageN.P/:ref`)
       | {"kind": "data", "file": str, "method": "ref"|"output"}
  token = ["lit", text] | ["ref", ref index, "abs"|"rel"]
Every (case, permutation) becomes one consumer component `k<case>x<perm>q` of the generated workflow,
declaring the same references in a different order.
"""
from __future__ import annotations

import itertools
from typing import Any, Dict, List, Optional, Tuple

from checks._c03_model import ROOTS, family, spell, _occurrences

SEP_BEFORE = [" ", "=", ",", '"', "'", " --opt=", " -f ", ";", "("]
SEP_AFTER = [" ", ",", '"', "'", ";", ")"]
FILES = ["out.txt", "sub/f.dat", "f_1.csv", "p.q/c-d.x"]     # no path component equals a possible producer name


def gen_exp(rng, mode: str, n_cases: int = 3) -> Dict[str, Any]:
    roots = rng.sample(ROOTS, rng.choice([1, 1, 2]))
    pool: List[str] = []
    for r in roots:
        pool += family(r)
    pool = list(dict.fromkeys(pool))
    rng.shuffle(pool)
    pool = pool[: rng.randint(3, 7)]
    n_stage = rng.choice([1, 2, 2, 3])
    if mode == "trailsep":
        n_stage = rng.choice([2, 2, 3])
    prods: List[Dict[str, Any]] = []
    used = set()
    for i in range(rng.randint(3, 7)):
        st = rng.randrange(n_stage) if i else 0
        prior = [p["name"] for p in prods if p["stage"] != st]
        for _ in range(20):
            n = rng.choice(prior) if prior and rng.random() < 0.4 else rng.choice(pool)
            if (st, n) not in used:
                break
        else:
            n = "U%sq" % "abcdefghij"[i]
        used.add((st, n))
        prods.append({"name": n, "stage": st, "stdout": "", "files": {}})
    # stage indices must be contiguous from 0
    remap = {s: k for k, s in enumerate(sorted({p["stage"] for p in prods}))}
    for p in prods:
        p["stage"] = remap[p["stage"]]
    if mode == "trailsep" and not _same_name_pairs(prods):
        # make sure some name is shared by an earlier-stage producer and a later-stage one
        later = [p for p in prods if p["stage"] > 0]
        if later:
            q = rng.choice(later)
            prods.append({"name": q["name"], "stage": rng.randrange(q["stage"]), "stdout": "", "files": {}})
    names = [p["name"] for p in prods]
    for i, p in enumerate(prods):
        p["stdout"] = _content(rng, names, "so%d" % i)
    exp = {"producers": prods, "data": {}, "cases": []}
    for ci in range(n_cases):
        for _ in range(40):
            case = _gen_case(rng, exp, mode)
            hz = hazards(exp, case)
            if mode in ("clean", "trailsep") and hz:
                continue
            if mode == "hazard" and not hz:
                continue
            break
        exp["cases"].append(case)
    return exp


def _same_name_pairs(prods) -> List[Tuple[int, int]]:
    """(i, j): producers of the same name, i in an earlier stage than j."""
    return [(i, j) for i, a in enumerate(prods) for j, b in enumerate(prods)
            if a["name"] == b["name"] and a["stage"] < b["stage"]]


def trailing_separator_kind(exp, case) -> str:
    """'' | 'alone' | 'next-to-same-name': does the argument string use a `:ref` reference whose producer is spelled
    with a trailing separator (`P/:ref`), and is a DIFFERENT producer of the same name referenced next to it?"""
    prods = exp["producers"]
    used = {t[1] for t in case["args"] if t[0] == "ref"}
    ts = [ri for ri in used if case["refs"][ri]["kind"] == "comp" and case["refs"][ri]["file"] == ""]
    if not ts:
        return ""
    for ri in ts:
        a = case["refs"][ri]
        for rj in used:
            b = case["refs"][rj]
            if b["kind"] == "comp" and b["p"] != a["p"] and prods[b["p"]]["name"] == prods[a["p"]]["name"]:
                return "next-to-same-name"
    return "alone"


def _content(rng, names, tag) -> str:
    words = [tag, rng.choice(names), rng.choice(["12", "x y", "stage0." + rng.choice(names), "-k", "=v"])]
    rng.shuffle(words)
    s = " ".join(words[: rng.randint(1, 3)])
    # file contents are taken verbatim: leading / trailing blanks and inner newlines belong to the value
    s = rng.choice(["", "", "", " ", "\t"]) + s + rng.choice(["", "", "", " ", "\nline2"])
    return s + rng.choice(["", "", "\n"])


def _gen_case(rng, exp, mode) -> Dict[str, Any]:
    prods = exp["producers"]
    names = [p["name"] for p in prods]
    max_stage = max(p["stage"] for p in prods)
    st = rng.randint(0, max_stage)
    pair = None
    if mode == "trailsep":
        pairs = _same_name_pairs(prods)
        if pairs and rng.random() < 0.6:
            pair = rng.choice(pairs)
            st = prods[pair[1]]["stage"]
    cands = [i for i, p in enumerate(prods) if p["stage"] <= st]
    k = rng.choice([2, 2, 3, 3, 4, 4, 5])
    refs: List[Dict[str, Any]] = []
    seen = set()
    tries = 0
    preset: Dict[int, str] = {}
    same_stage = [i for i in cands if prods[i]["stage"] == st]
    if mode == "trailsep":
        # a :ref reference whose producer is spelled with a trailing separator (`P/:ref`, `stageN.P/:ref`: empty file
        # part) - alone, or (pair) to an earlier-stage producer next to the stage-less spelling of the producer of
        # the same name in the consumer's own stage
        if pair is not None:
            refs.append({"kind": "comp", "p": pair[0], "file": "", "method": "ref", "decl": "abs"})
            refs.append({"kind": "comp", "p": pair[1], "file": rng.choice([None, None, "", "out.txt"]),
                         "method": "ref", "decl": rng.choice(["abs", "rel"])})
            seen.add((pair[0], "", "ref"))
            seen.add((pair[1], refs[-1]["file"], "ref"))
            preset[1] = "rel"
        else:
            p = rng.choice(cands)
            same = prods[p]["stage"] == st
            refs.append({"kind": "comp", "p": p, "file": "", "method": "ref",
                         "decl": rng.choice(["abs", "rel"]) if same else "abs"})
            seen.add((p, "", "ref"))
            if same:
                preset[0] = rng.choice(["abs", "rel", "rel"])
    elif same_stage and rng.random() < 0.2:
        # a direct reference data/<P> next to the stage-less spelling of the same-stage producer P
        p = rng.choice(same_stage)
        refs.append({"kind": "comp", "p": p, "file": None, "method": "ref", "decl": rng.choice(["abs", "rel"])})
        seen.add((p, None, "ref"))
        preset[0] = "rel"
        f = prods[p]["name"]
        refs.append({"kind": "data", "file": f, "method": "ref"})
        seen.add(("data", f))
        exp["data"].setdefault(f, _content(rng, names, "d%d" % len(exp["data"])))
    while len(refs) < k and tries < 40:
        tries += 1
        if rng.random() < 0.12:
            f = rng.choice(names + [n + ".txt" for n in names])
            key = ("data", f)
            if key in seen:
                continue
            seen.add(key)
            refs.append({"kind": "data", "file": f, "method": rng.choice(["ref", "ref", "output"])})
            exp["data"].setdefault(f, _content(rng, names, "d%d" % len(exp["data"])))
            continue
        p = rng.choice(cands)
        method = rng.choice(["ref", "ref", "ref", "output", "output", "copy", "link"])
        file = rng.choice([None, None, None] + FILES + [rng.choice(names), "d/" + rng.choice(names)])
        if method in ("copy", "link") and rng.random() < 0.5:
            file = rng.choice(FILES)
        if mode == "trailsep" and method == "ref" and rng.random() < 0.25:
            file = ""
        key = (p, file, method)
        if key in seen:
            continue
        seen.add(key)
        same = prods[p]["stage"] == st
        if method == "output" and file is not None:
            prods[p]["files"].setdefault(file, _content(rng, names, "f%d" % len(prods[p]["files"])))
        refs.append({"kind": "comp", "p": p, "file": file, "method": method,
                     "decl": rng.choice(["abs", "rel"]) if same else "abs"})
    use = [ri for ri, r in enumerate(refs) if r["method"] in ("ref", "output")]
    if not use:
        refs.append({"kind": "comp", "p": cands[0], "file": None, "method": "ref", "decl": "abs"})
        use = [len(refs) - 1]
    occ = list(use)
    for ri in use:
        if rng.random() < 0.3:
            occ.append(ri)
    rng.shuffle(occ)
    lits = ["run", "-v", "--n", "3", "x", "opt"] + names + ["stage0." + names[0], names[-1] + ".txt", "data/" + names[0]]
    toks: List[List[Any]] = [["lit", rng.choice(lits)]]
    chosen: Dict[int, str] = dict(preset)
    submode = rng.choice(["both", "inside", "inside", "inside"])
    for ri in occ:
        r = refs[ri]
        if r["kind"] == "data":
            sp = "abs"
        else:
            same = prods[r["p"]]["stage"] == st
            if mode == "hazard" and submode == "both":
                sp = rng.choice(["abs", "rel"]) if same else "abs"
            elif mode == "hazard":
                sp = chosen.get(ri) or (rng.choice(["abs", "rel", "rel"]) if same else "abs")
            else:
                sp = chosen.get(ri) or (rng.choice(["abs", "abs", "rel"]) if same else "abs")
            chosen.setdefault(ri, sp)
        toks.append(["lit", rng.choice(SEP_BEFORE)])
        toks.append(["ref", ri, sp])
        toks.append(["lit", rng.choice(SEP_AFTER)])
        if rng.random() < 0.5:
            toks.append(["lit", rng.choice(lits)])
    merged: List[List[Any]] = []
    for t in toks:
        if t[0] == "lit" and merged and merged[-1][0] == "lit":
            merged[-1][1] += t[1]
        else:
            merged.append(list(t))
    if merged[0][0] == "lit":
        merged[0][1] = merged[0][1].lstrip()
    if merged[-1][0] == "lit":
        merged[-1][1] = merged[-1][1].rstrip()
    merged = [t for t in merged if not (t[0] == "lit" and t[1] == "")]
    n = len(refs)
    if n <= 4:
        perms = [list(p) for p in itertools.permutations(range(n))]
    else:
        perms = [list(range(n)), list(reversed(range(n)))]
        while len(perms) < 12:
            p = list(range(n))
            rng.shuffle(p)
            if p not in perms:
                perms.append(p)
    return {"stage": st, "refs": refs, "args": merged, "perms": perms}


# --------------------------------------------------------------------------- spellings / document

def ref_spell(exp, case, ri, which) -> str:
    r = case["refs"][ri]
    if r["kind"] == "data":
        return "data/%s:%s" % (r["file"], r["method"])
    p = exp["producers"][r["p"]]
    return spell(p["stage"] if which == "abs" else None, p["name"], r["file"], r["method"])


def args_string(exp, case) -> str:
    return "".join(t[1] if t[0] == "lit" else ref_spell(exp, case, t[1], t[2]) for t in case["args"])


def consumer_name(ci, pi) -> str:
    return "k%dx%dq" % (ci, pi)


def to_flowir(exp) -> Dict[str, Any]:
    comps = []
    for p in exp["producers"]:
        comps.append({"name": p["name"], "stage": p["stage"], "command": {"executable": "echo", "arguments": "hi"}})
    for ci, case in enumerate(exp["cases"]):
        a = args_string(exp, case)
        for pi, perm in enumerate(case["perms"]):
            comps.append({"name": consumer_name(ci, pi), "stage": case["stage"],
                          "command": {"executable": "echo", "arguments": a},
                          "references": [ref_spell(exp, case, ri, case["refs"][ri].get("decl", "abs")) for ri in perm]})
    return {"components": comps}


def ref_value(exp, case, ri, inst: str) -> List[str]:
    """Acceptable values of reference ri (one, or two when a trailing newline of a file may or may not be kept)."""
    r = case["refs"][ri]
    if r["kind"] == "data":
        if r["method"] == "output":
            c = exp["data"][r["file"]]
            return sorted({c.rstrip("\n"), c})
        return ["%s/data/%s" % (inst, r["file"])]
    p = exp["producers"][r["p"]]
    if r["method"] == "output":
        c = p["stdout"] if r["file"] is None else p["files"][r["file"]]
        return sorted({c.rstrip("\n"), c})
    base = "%s/stages/stage%d/%s" % (inst, p["stage"], p["name"])
    if r["file"] == "":
        # `P/:ref`: the producer's directory; the separator the user wrote may or may not be kept (both accepted)
        return [base + "/", base]
    return [base if r["file"] is None else "%s/%s" % (base, r["file"])]


def match_resolved(exp, case, inst, actual: str) -> bool:
    pos = 0
    for t in case["args"]:
        if t[0] == "lit":
            if not actual.startswith(t[1], pos):
                return False
            pos += len(t[1])
        else:
            for v in sorted(ref_value(exp, case, t[1], inst), key=len, reverse=True):
                if actual.startswith(v, pos):
                    pos += len(v)
                    break
            else:
                return False
    return pos == len(actual)


def expected_string(exp, case, inst) -> str:
    return "".join(t[1] if t[0] == "lit" else ref_value(exp, case, t[1], inst)[0] for t in case["args"])


# --------------------------------------------------------------------------- the known mechanism (classification only)

def process_order(case, perm) -> List[int]:
    """Direct (data) references are substituted before component references, each group in declared order."""
    return [ri for ri in perm if case["refs"][ri]["kind"] == "data"] + \
           [ri for ri in perm if case["refs"][ri]["kind"] != "data"]


def simulate(exp, case, perm, inst) -> str:
    """Sequential textual substitution: for every :ref/:output reference in processing order replace its
    absolute spelling if that occurs anywhere in the string, else its stage-less spelling."""
    s = args_string(exp, case)
    for ri in process_order(case, perm):
        r = case["refs"][ri]
        if r["method"] not in ("ref", "output"):
            continue
        v = ref_value(exp, case, ri, inst)[0]
        a, rel = ref_spell(exp, case, ri, "abs"), ref_spell(exp, case, ri, "rel")
        if a in s:
            s = s.replace(a, v)
        elif rel in s:
            s = s.replace(rel, v)
    return s


def overlaps(exp, case) -> List[Dict[str, str]]:
    """Structural precondition: a spelling (absolute or stage-less) of one :ref/:output reference occurs inside,
    or coincides with, an argument token that spells a DIFFERENT reference; or one reference is spelled both
    ways in the argument string."""
    out = []
    toks = [(ref_spell(exp, case, t[1], t[2]), t[1]) for t in case["args"] if t[0] == "ref"]
    for ri, r in enumerate(case["refs"]):
        if r["method"] not in ("ref", "output"):
            continue
        for k in {ref_spell(exp, case, ri, "abs"), ref_spell(exp, case, ri, "rel")}:
            for (s, rj) in toks:
                if rj == ri:
                    continue
                if _occurrences(k, s):
                    out.append({"kind": "spelling-coincides-with-other-reference" if k == s
                                else "spelling-inside-other-reference", "key": k, "inside": s})
        sp = {s for (s, rj) in toks if rj == ri}
        if len(sp) > 1:
            out.append({"kind": "both-spellings-of-one-reference", "key": sorted(sp)[0], "inside": sorted(sp)[1]})
    return out


def hazards(exp, case) -> List[Dict[str, str]]:
    """The overlap pairs if sequential substitution would corrupt the string for SOME declaration order."""
    ov = overlaps(exp, case)
    if not ov:
        return []
    inst = "/I"
    for perm in case["perms"]:
        if not match_resolved(exp, case, inst, simulate(exp, case, perm, inst)):
            return ov
    return []


def name_relations(exp) -> List[str]:
    names = sorted({p["name"] for p in exp["producers"]})
    kinds = set()
    for a in names:
        for b in names:
            if a != b and a in b:
                kinds.add("prefix" if b.startswith(a) else ("suffix" if b.endswith(a) else "infix"))
    seen: Dict[str, set] = {}
    for p in exp["producers"]:
        seen.setdefault(p["name"], set()).add(p["stage"])
    if any(len(v) > 1 for v in seen.values()):
        kinds.add("same-name-other-stage")
    return sorted(kinds)
