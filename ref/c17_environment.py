"""C17 reference builder: the environment of a component from its declared sources.

Written from the property statement and the user-facing description of environments (docstring
of environmentWithName / the package documentation), not from the implementation:

  result = system variables
         + nothing                                   component selects the empty environment ("none")
         | package default environment, or the whole launch environment if the package defines
           none                                      component selects no environment
         | named environment of the selected platform layered (key by key) over the same-named
           environment of the default platform; unknown -> error
  then   variables listed in DEFAULTS (colon separated) are imported from the launch environment:
         added when the environment does not define them, otherwise the variable's references to
         itself ($PATH in PATH) are replaced by the launch value; names the launch environment
         does not have are ignored
  then   $NAME / ${NAME} references are expanded first from the environment itself, then from the
         launch environment; references to names neither knows stay as they are
  then   interpreter components additionally receive PATH, PYTHONPATH, PYTHONHOME, LD_LIBRARY_PATH
         from the launch environment when the environment does not have them.
Environment names are case-insensitive.
"""
from __future__ import annotations

import re
from typing import Any, Dict, Optional, Tuple

REF = re.compile(r"\$(?:([A-Za-z_][A-Za-z0-9_]*)|\{([A-Za-z_][A-Za-z0-9_]*)\})")
SEARCH_PATHS = ("PATH", "PYTHONPATH", "PYTHONHOME", "LD_LIBRARY_PATH")


class UnknownEnvironment(Exception):
    pass


def to_text(v: Any) -> str:
    return "" if v is None else str(v)


def lookup(environments: Dict[str, Dict[str, Dict[str, Any]]], platform: str, name: str) -> Optional[Dict[str, str]]:
    for n, content in (environments.get(platform) or {}).items():
        if n.lower() == name.lower():
            return {str(k): to_text(v) for k, v in (content or {}).items()}
    return None


def named(environments, platform: str, name: str) -> Tuple[Dict[str, str], str]:
    p = lookup(environments, platform, name)
    d = lookup(environments, "default", name) if platform != "default" else None
    if p is None and d is None:
        raise UnknownEnvironment(name)
    out = dict(d or {})
    out.update(p or {})
    where = "both" if (p is not None and d is not None) else ("platform" if p is not None else "default")
    if platform == "default":
        where = "default-is-selected"
    return out, where


def expand(value: str, first: Dict[str, str], then: Dict[str, str]) -> str:
    def rep(m):
        n = m.group(1) or m.group(2)
        if n in first:
            return first[n]
        if n in then:
            return then[n]
        return m.group(0)
    return REF.sub(rep, value)


def build(environments, platform: str, selection: Optional[str], interpreter: bool,
          launch: Dict[str, str], system_vars: Dict[str, str]):
    """-> ("ok", env, info) | ("unknown", name, info)."""
    info = {"launch_is_base": False, "imported": [], "class": None, "where": None}
    sel = (selection or "").lower()
    if sel == "none":
        base = {}
        info["class"] = "empty"
    elif sel in ("", "environment"):
        try:
            base, info["where"] = named(environments, platform, "environment")
            info["class"] = "default-environment-defined"
        except UnknownEnvironment:
            base = dict(launch)
            info["launch_is_base"] = True
            info["class"] = "default-environment-is-launch"
    else:
        try:
            base, info["where"] = named(environments, platform, sel)
        except UnknownEnvironment:
            info["class"] = "named-unknown"
            return "unknown", sel, info
        info["class"] = "named"
    env = dict(system_vars)
    env.update(base)
    if "DEFAULTS" in env:
        for v in env["DEFAULTS"].split(":"):
            if v not in launch:
                continue
            info["imported"].append(v)
            if v not in env:
                env[v] = launch[v]
            else:
                env[v] = expand(env[v], {v: launch[v]}, {})
        del env["DEFAULTS"]
    before = dict(env)
    env = {k: expand(v, before, launch) for k, v in env.items()}
    if interpreter:
        for v in SEARCH_PATHS:
            if v in launch and v not in env:
                env[v] = launch[v]
                info.setdefault("interpreter_added", []).append(v)
    return "ok", env, info


def _selftest():
    """Hand-computed cases (python -m ref.c17_environment)."""
    envs = {"default": {"MyEnv": {"DEFAULTS": "PATH:IMP:NOT_THERE", "A": "a-def", "B": "$A/b:${LAUNCHV}:$UNDEF",
                                  "PATH": "mine:$PATH", "N": 3, "E": None},
                        "environment": {"D": "dflt"}},
            "p1": {"MYENV": {"A": "a-p1", "C": "$A-$LIB"}, "only": {"X": "$VERIF_LEAK_1"}}}
    launch = {"PATH": "/bin", "IMP": "imported", "LAUNCHV": "lv", "A": "a-launch", "LIB": "launch-lib",
              "VERIF_LEAK_1": "leak1", "PYTHONPATH": "/pp"}
    sysv = {"S": "sys"}
    st, env, info = build(envs, "default", "myENV", False, launch, sysv)
    assert st == "ok" and env == {"S": "sys", "A": "a-def", "B": "a-def/b:lv:$UNDEF", "PATH": "mine:/bin", "N": "3",
                                  "E": "", "IMP": "imported"}, env
    st, env, info = build(envs, "p1", "myenv", True, launch, sysv)
    assert env == {"S": "sys", "A": "a-p1", "B": "a-p1/b:lv:$UNDEF", "PATH": "mine:/bin", "N": "3", "E": "",
                   "C": "a-p1-launch-lib", "IMP": "imported", "PYTHONPATH": "/pp"}, env
    assert info["where"] == "both" and info["imported"] == ["PATH", "IMP"]
    assert build(envs, "default", "only", False, launch, sysv)[:2] == ("unknown", "only")
    assert build(envs, "p1", "ONLY", False, launch, sysv)[1] == {"S": "sys", "X": "leak1"}
    assert build(envs, "p1", "None", False, launch, sysv)[1] == {"S": "sys"}
    assert build(envs, "p1", None, False, launch, sysv)[1] == {"S": "sys", "D": "dflt"}
    del envs["default"]["environment"]
    st, env, info = build(envs, "p1", "", False, launch, sysv)
    assert env == dict(launch, S="sys") and info["launch_is_base"]
    print("c17_environment selftest ok")


if __name__ == "__main__":
    _selftest()
