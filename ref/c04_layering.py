"""C04 reference resolver: the two layering lattices of the property statement.

Written from the statement (and the FlowIR schema for the *declared* types), not from
`get_component_configuration`.  Input is a plain FlowIR dictionary, the optional user-supplied
variables, a component id and the selected platform; output is either

    ("ok", {"options": nested dict, "variables": dict})
    ("undefined", <variable name>)          a reference to an undefined variable must be reported

Layering order, lowest to highest priority

  options    built-in defaults < default global blueprint < default stage blueprint
             < platform global blueprint < platform stage blueprint < component < component override[P]
  variables  default global < default stage < platform global < platform stage < user-supplied
             < component < component override[P]

"A layer defines a leaf" means the key is present with a value that is not None (None is the
FlowIR spelling of "unset").  Dictionaries merge key by key, everything else (scalars, lists) is
replaced wholesale by the highest layer that defines it.
"""
from __future__ import annotations

import copy
import re
from typing import Any, Dict, List, Optional, Tuple

REF = re.compile(r"%\(([a-zA-Z0-9_.-]+)\)s")

OPTION_SECTIONS = ("command", "workflowAttributes", "resourceRequest", "resourceManager", "executors", "references")


class Undefined(Exception):
    def __init__(self, name):
        Exception.__init__(self, name)
        self.name = name


def layer(lo: Any, hi: Any) -> Any:
    """Result of putting `hi` on top of `lo` (neither argument is modified)."""
    if hi is None:
        return copy.deepcopy(lo)
    if isinstance(lo, dict) and isinstance(hi, dict):
        out = {k: copy.deepcopy(v) for k, v in lo.items()}
        for k, v in hi.items():
            out[k] = layer(out[k], v) if k in out else copy.deepcopy(v)
        return out
    return copy.deepcopy(hi)


def option_layers(doc: Dict[str, Any], comp: Dict[str, Any], platform: str) -> List[Tuple[str, Dict[str, Any]]]:
    stage = comp.get("stage", 0)
    bp = doc.get("blueprint", {}) or {}

    def blue(plat, scope):
        d = (bp.get(plat) or {})
        if scope == "global":
            return d.get("global") or {}
        return (d.get("stages") or {}).get(stage) or {}

    own = {k: v for k, v in comp.items() if k not in ("variables", "override", "name", "stage")}
    ovr = ((comp.get("override") or {}).get(platform)) or {}
    ovr = {k: v for k, v in ovr.items() if k != "variables"}
    return [
        ("dg", blue("default", "global")), ("ds", blue("default", "stage")),
        ("pg", blue(platform, "global")), ("ps", blue(platform, "stage")),
        ("comp", own), ("ovr", ovr),
    ]


def variable_layers(doc, comp, platform, user_vars=None) -> List[Tuple[str, Dict[str, Any]]]:
    stage = comp.get("stage", 0)
    vs = doc.get("variables", {}) or {}

    def var(plat, scope):
        d = (vs.get(plat) or {})
        if scope == "global":
            return d.get("global") or {}
        return (d.get("stages") or {}).get(stage) or {}

    user = {}
    if user_vars:
        user.update(user_vars.get("global") or {})
        user.update((user_vars.get("stages") or {}).get(stage) or {})
    return [
        ("dg", var("default", "global")), ("ds", var("default", "stage")),
        ("pg", var(platform, "global")), ("ps", var(platform, "stage")),
        ("user", user),
        ("comp", comp.get("variables") or {}),
        ("ovr", (((comp.get("override") or {}).get(platform)) or {}).get("variables") or {}),
    ]


def text_of(value: Any) -> str:
    if isinstance(value, str):
        return value
    return str(value)


def substitute(s: str, variables: Dict[str, Any], _stack: Tuple[str, ...] = ()) -> str:
    """Replace %(name)s until no reference to a defined variable remains."""
    def rep(m):
        name = m.group(1)
        if name not in variables:
            raise Undefined(name)
        if name in _stack:
            raise RecursionError("cycle through %s" % name)
        v = variables[name]
        if isinstance(v, str):
            return substitute(v, variables, _stack + (name,))
        return text_of(v)
    return REF.sub(rep, s)


def substitute_all(obj: Any, variables: Dict[str, Any]) -> Any:
    if isinstance(obj, dict):
        return {k: substitute_all(v, variables) for k, v in obj.items()}
    if isinstance(obj, list):
        return [substitute_all(v, variables) for v in obj]
    if isinstance(obj, str):
        return substitute(obj, variables)
    return obj


# ---------------------------------------------------------------- declared types (FlowIR schema)
# kind: str | int | bool | number (int or float accepted by the schema) | float | list | raw (no declared scalar type)
DECLARED = {
    ("command", "executable"): "str",
    ("command", "arguments"): "str",
    ("command", "environment"): "str",
    ("command", "resolvePath"): "bool",
    ("workflowAttributes", "aggregate"): "bool",
    ("workflowAttributes", "isMigratable"): "bool",
    ("workflowAttributes", "maxRestarts"): "int",
    ("workflowAttributes", "repeatRetries"): "int",
    ("workflowAttributes", "shutdownOn"): "list",
    ("workflowAttributes", "memoization", "disable", "strong"): "raw",
    ("workflowAttributes", "optimizer", "exploitChance"): "float",
    ("resourceRequest", "numberProcesses"): "int",
    ("resourceRequest", "numberThreads"): "int",
    ("resourceRequest", "memory"): "int",
    ("resourceRequest", "gpus"): "int",
    ("resourceManager", "config", "backend"): "str",
    ("resourceManager", "config", "walltime"): "number",
    ("resourceManager", "lsf", "queue"): "str",
    ("resourceManager", "lsf", "statusRequestInterval"): "number",
    ("resourceManager", "kubernetes", "image"): "str",
    ("resourceManager", "kubernetes", "gracePeriod"): "int",
    ("resourceManager", "kubernetes", "cpuUnitsPerCore"): "number",
    ("resourceManager", "docker", "imagePullPolicy"): "raw",
}

TRUE_WORDS = {"true": True, "yes": True, "false": False, "no": False}


def coerce(kind: str, value: Any) -> Any:
    """Value of a typed option after substitution.  Only called with inputs whose reading is
    unambiguous (the generator guarantees it): ints or decimal strings for int/number, floats or
    their repr for float, booleans or true/false/yes/no words for bool."""
    if value is None:
        return None
    if kind == "int":
        return int(value)
    if kind == "number":
        return int(value) if not isinstance(value, float) else value
    if kind == "float":
        return float(value)
    if kind == "bool":
        if isinstance(value, bool):
            return value
        return TRUE_WORDS[str(value).lower()]
    if kind == "str":
        return str(value)
    return value


def type_ok(kind: str, observed: Any) -> bool:
    if observed is None:
        return True
    if kind == "int":
        return isinstance(observed, int) and not isinstance(observed, bool)
    if kind in ("number", "float"):
        ok = (int, float) if kind == "number" else (float,)
        return isinstance(observed, ok) and not isinstance(observed, bool)
    if kind == "bool":
        return isinstance(observed, bool)
    if kind == "str":
        return isinstance(observed, str)
    if kind == "list":
        return isinstance(observed, list)
    return True


def get_path(d: Any, path) -> Tuple[bool, Any]:
    for p in path:
        if not isinstance(d, dict) or p not in d:
            return False, None
        d = d[p]
    return True, d


def set_path(d: Dict[str, Any], path, value):
    for p in path[:-1]:
        d = d.setdefault(p, {})
    d[path[-1]] = value


def winner(layers: List[Tuple[str, Dict[str, Any]]], path) -> Optional[str]:
    """Name of the highest layer that defines the leaf at `path` (None if no layer does)."""
    w = None
    for name, content in layers:
        present, v = get_path(content, path)
        if present and v is not None:
            w = name
    return w


def resolve(doc: Dict[str, Any], comp_id, platform: str, builtin: Dict[str, Any],
            user_vars: Optional[Dict[str, Any]] = None):
    """Expected outcome for component `comp_id` = (stage, name) on `platform`.

    `builtin` is the lowest layer (the runtime's table of built-in defaults)."""
    comp = None
    for c in doc.get("components", []):
        if c.get("stage", 0) == comp_id[0] and c.get("name") == comp_id[1]:
            comp = c
    if comp is None:
        raise KeyError(comp_id)

    options = copy.deepcopy({k: v for k, v in builtin.items() if k not in ("variables", "stage")})
    olayers = option_layers(doc, comp, platform)
    for _, content in olayers:
        options = layer(options, content)

    variables: Dict[str, Any] = {}
    vlayers = variable_layers(doc, comp, platform, user_vars)
    for _, content in vlayers:
        for k, v in content.items():
            variables[k] = v

    try:
        res_vars = {k: (substitute(v, variables) if isinstance(v, str) else v) for k, v in variables.items()}
        res_opts = substitute_all(options, variables)
    except Undefined as e:
        return ("undefined", e.name), {"olayers": olayers, "vlayers": vlayers}

    for path, kind in DECLARED.items():
        present, v = get_path(res_opts, path)
        if present and kind not in ("raw", "list"):
            set_path(res_opts, path, coerce(kind, v))

    return ("ok", {"options": res_opts, "variables": res_vars}), {"olayers": olayers, "vlayers": vlayers}


def _selftest():
    """Hand-computed cases (python -m ref.c04_layering)."""
    builtin = {"command": {"arguments": "", "executable": None, "resolvePath": True},
               "resourceRequest": {"numberThreads": 1, "memory": None},
               "resourceManager": {"config": {"backend": "local", "walltime": 60.0}}, "variables": {}, "stage": 0}
    doc = {
        "variables": {"default": {"global": {"a": "dg", "n": 3, "only_default": "%(a)s!"}, "stages": {0: {"a": "ds"}, 1: {"a": "ds1"}}},
                      "p1": {"global": {"a": "pg"}, "stages": {0: {"b": "ps-%(a)s"}}},
                      "p2": {"global": {"a": "pg2", "leak": "x"}}},
        "blueprint": {"default": {"global": {"command": {"arguments": "bp-dg"}, "resourceRequest": {"numberThreads": "%(n)s"}},
                                  "stages": {0: {"command": {"arguments": "bp-ds %(a)s"}}}},
                      "p1": {"global": {"resourceManager": {"config": {"backend": "lsf", "walltime": "30"}}},
                             "stages": {0: {"resourceRequest": {"memory": 0}}}}},
        "components": [{"stage": 0, "name": "c", "command": {"executable": "echo"}, "variables": {"z": "%(b)s/%(n)s"},
                        "override": {"p1": {"command": {"arguments": ""}, "variables": {"n": "4"}},
                                     "p2": {"command": {"executable": "other"}}}}]}
    (st, exp), _ = resolve(doc, (0, "c"), "default", builtin)
    assert st == "undefined" and exp == "b", (st, exp)          # z references b which only p1 defines
    (st, exp), info = resolve(doc, (0, "c"), "p1", builtin)
    assert st == "ok"
    assert exp["variables"] == {"a": "pg", "n": "4", "only_default": "pg!", "b": "ps-pg", "z": "ps-pg/4"}, exp["variables"]
    o = exp["options"]
    assert o["command"] == {"arguments": "", "executable": "echo", "resolvePath": True}, o["command"]   # "" from override wins
    assert o["resourceRequest"] == {"numberThreads": 4, "memory": 0}, o["resourceRequest"]               # typed, falsy 0 wins
    assert o["resourceManager"]["config"] == {"backend": "lsf", "walltime": 30}
    assert winner(info["olayers"], ("command", "arguments")) == "ovr"
    user = {"global": {"a": "user"}, "stages": {0: {"n": 9}}}
    (st, exp), _ = resolve(doc, (0, "c"), "p1", builtin, user)
    assert exp["variables"]["a"] == "user" and exp["variables"]["n"] == "4" and exp["variables"]["b"] == "ps-user"
    doc["components"][0]["variables"]["b"] = "comp-b"
    (st, exp), _ = resolve(doc, (0, "c"), "p2", builtin)
    # on p2: a = default global "dg" < default stage "ds" < platform global "pg2"
    assert st == "ok" and exp["options"]["command"] == {"arguments": "bp-ds pg2", "executable": "other", "resolvePath": True}
    assert exp["variables"]["leak"] == "x" and exp["variables"]["a"] == "pg2" and exp["variables"]["z"] == "comp-b/3"
    print("c04_layering selftest ok")


if __name__ == "__main__":
    _selftest()
