#!/bin/sh
# Offline setup: third-party helper (icontract) beside the repository's interpreter + self-tests of the
# reference models / oracles (hand-computed cases).
set -e
cd "$(dirname "$0")"
if [ ! -d .deps/icontract ]; then
  /venv/bin/pip install -q --no-index --find-links /opt/veriftools/wheels --target .deps icontract >/dev/null 2>&1 || \
  /venv/bin/pip install --no-index --find-links /opt/veriftools/wheels --target .deps icontract
fi
mkdir -p evidence replay
export PYTHONPATH="$PWD/.deps:$PWD:${VERIF_REPO:-/repo}/python" PYTHONDONTWRITEBYTECODE=1 PYTHONWARNINGS=ignore
/venv/bin/python -c "import icontract, experiment; print('setup ok', icontract.__version__)"
/venv/bin/python selftest/test_oracles.py
/venv/bin/python -m ref.c04_layering >/dev/null
/venv/bin/python -m ref.c17_environment >/dev/null
echo "selftests ok"
