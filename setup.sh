#!/bin/sh
# Offline setup: third-party helper (icontract) beside the repository's interpreter.
set -e
cd "$(dirname "$0")"
if [ ! -d .deps/icontract ]; then
  /venv/bin/pip install -q --no-index --find-links /opt/veriftools/wheels --target .deps icontract >/dev/null 2>&1 || \
  /venv/bin/pip install --no-index --find-links /opt/veriftools/wheels --target .deps icontract
fi
mkdir -p evidence replay
/venv/bin/python -c "import sys; sys.path[:0]=['.deps','/repo/python']; import icontract, experiment; print('setup ok', icontract.__version__)"
