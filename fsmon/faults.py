"""Fault-injecting proxies for ``builtins.open`` / ``os.rename`` / ``os.replace`` / ``os.remove``.

An ``Injector`` numbers the *I/O boundaries* of whatever runs while it is installed: every
writing ``open`` of a file under one of the watched directories, every ``write`` / ``flush`` /
``close`` on such a file, and every rename / replace / remove touching a watched directory.
A *plan* says what to do at one boundary:

    {"mode": "count"}                                   just number the boundaries
    {"mode": "die",   "at": i, "side": "before"|"after", "flush_each": bool}
        the process calls os._exit(137) immediately before / after performing operation i: no
        buffer is flushed, no ``finally`` runs.  With flush_each every proxied write is followed
        by a real flush, i.e. the kernel has seen every byte written so far (the other extreme of
        what a crash may leave behind); without it the bytes sit in the user-space buffer.
    {"mode": "raise", "at": i, "side": "before"|"after", "flush_each": bool}
        operation i fails with OSError(ENOSPC).  side=before: the operation is not performed.
        side=after (write/close only): half of the data is written / the close is performed and
        the error is reported nevertheless.

    {"mode": "pause", "thread": name, "at": k, "flush_each": bool}
        the thread called `name` stops right before ITS k-th boundary (boundaries are also counted
        per thread) and sets `injector.paused`; it continues when `injector.resume` is set.  Used
        to enumerate interleavings of two writers deterministically (fsmon.crash.run_interleaved).

Reads and files outside the watched directories are passed through untouched.
"""
from __future__ import annotations

import builtins
import errno
import os
import threading
from typing import Any, Callable, Dict, List, Optional, Sequence

DEATH_STATUS = 137
_real_open = builtins.open
_real = {n: getattr(os, n) for n in ("rename", "replace", "remove", "unlink")}


class FileProxy:
    """Wraps a real file object opened for writing; counts write/flush/close boundaries."""

    def __init__(self, inj: "Injector", real, role: str):
        self.__dict__["_inj"] = inj
        self.__dict__["_real"] = real
        self.__dict__["_role"] = role
        self.__dict__["_closed"] = False

    def write(self, data):
        real, inj = self._real, self._inj

        def do():
            r = real.write(data)
            if inj.plan.get("flush_each"):
                real.flush()
            return r

        def partial():
            real.write(data[: len(data) // 2])
            if inj.plan.get("flush_each"):
                real.flush()

        return inj.step("write", self._role, do, partial, n=len(data))

    def writelines(self, lines):
        for l in lines:
            self.write(l)

    def flush(self):
        return self._inj.step("flush", self._role, self._real.flush)

    def close(self):
        if self._closed:
            return None
        self.__dict__["_closed"] = True
        real, inj = self._real, self._inj

        def do():
            return real.close()

        try:
            return inj.step("close", self._role, do, do)
        except OSError:
            # a failed close: keep the unflushed object alive so that garbage collection does not
            # write the buffer behind the back of the scenario
            if not real.closed:
                inj.limbo.append(real)
            raise

    def __enter__(self):
        return self

    def __exit__(self, *exc):
        self.close()
        return False

    def __iter__(self):
        return iter(self._real)

    def __getattr__(self, name):
        return getattr(self._real, name)

    def __setattr__(self, name, value):
        setattr(self._real, name, value)


class Injector:
    def __init__(self, watch: Sequence[str], plan: Optional[Dict[str, Any]] = None,
                 targets: Sequence[str] = ()):
        self.watch = [os.path.realpath(w).rstrip(os.sep) for w in watch]
        self.plan = dict(plan or {"mode": "count"})
        self.targets = {os.path.basename(t): os.path.basename(t) for t in targets}
        self.boundaries: List[Dict[str, Any]] = []
        self.fired = False
        self.per_thread: Dict[str, int] = {}
        self.paused = threading.Event()
        self.resume = threading.Event()
        self.limbo: List[Any] = []
        self._installed = False

    # -- bookkeeping
    def _watched(self, path: Any) -> bool:
        if not isinstance(path, (str, bytes, os.PathLike)):
            return False
        p = os.fsdecode(os.fspath(path))
        d = os.path.realpath(os.path.dirname(os.path.abspath(p)))
        return any(d == w or d.startswith(w + os.sep) for w in self.watch)

    def _role(self, path: Any) -> str:
        b = os.path.basename(os.fsdecode(os.fspath(path)))
        return self.targets.get(b, "temp")

    def step(self, op: str, role: str, do: Callable[[], Any], partial: Optional[Callable[[], Any]] = None, **info):
        i = len(self.boundaries)
        tname = threading.current_thread().name
        ti = self.per_thread.get(tname, 0)
        self.per_thread[tname] = ti + 1
        rec = {"i": i, "op": op, "file": role, "thread": tname, "ti": ti}
        rec.update(info)
        self.boundaries.append(rec)
        plan = self.plan
        if plan.get("mode") == "pause" and plan.get("thread") == tname and plan.get("at") == ti:
            # deterministic interleaving: this thread stops right before its operation `ti` until resumed
            self.fired = True
            self.paused.set()
            self.resume.wait()
        if plan.get("mode") in ("die", "raise") and plan.get("at") == i:
            self.fired = True
            if plan["mode"] == "die":
                if plan.get("side") == "after":
                    do()
                os._exit(DEATH_STATUS)
            if plan.get("side") == "after" and partial is not None:
                partial()
            raise OSError(errno.ENOSPC, "No space left on device (injected at boundary %d: %s %s)" % (i, op, role))
        return do()

    # -- proxies
    def _open(self, file, mode="r", *args, **kwargs):
        m = mode if isinstance(mode, str) else "r"
        if not any(c in m for c in "wax+") or isinstance(file, int) or not self._watched(file):
            return _real_open(file, mode, *args, **kwargs)
        role = self._role(file)
        real = self.step("open", role, lambda: _real_open(file, mode, *args, **kwargs), mode=m)
        return FileProxy(self, real, role)

    def _two(self, name):
        real = _real[name]

        def proxy(src, dst, *args, **kwargs):
            if not (self._watched(src) or self._watched(dst)):
                return real(src, dst, *args, **kwargs)
            return self.step(name, "%s->%s" % (self._role(src), self._role(dst)),
                             lambda: real(src, dst, *args, **kwargs))
        return proxy

    def _one(self, name):
        real = _real[name]

        def proxy(path, *args, **kwargs):
            if not self._watched(path):
                return real(path, *args, **kwargs)
            return self.step("remove", self._role(path), lambda: real(path, *args, **kwargs))
        return proxy

    def install(self):
        builtins.open = self._open
        os.rename = self._two("rename")
        os.replace = self._two("replace")
        os.remove = self._one("remove")
        os.unlink = self._one("unlink")
        self._installed = True
        return self

    def uninstall(self):
        builtins.open = _real_open
        for n, f in _real.items():
            setattr(os, n, f)
        self._installed = False

    def __enter__(self):
        return self.install()

    def __exit__(self, *exc):
        self.uninstall()
        return False
