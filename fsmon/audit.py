"""File-system *effect* monitor built on ``sys.addaudithook``.

One hook is installed per process (audit hooks cannot be removed); it is inert until a
``Recorder`` is active.  While active, every audit event that creates, removes, renames or
modifies a file-system entry is recorded together with the location the effect lands on,
resolved AT EVENT TIME (the hook runs before the operation):

* ``open`` with a writing mode/flags: ``realpath(path)`` - symlinks in every component,
  including the last one, are followed, because that is where the bytes go;
* entry-level operations (mkdir, rmdir, remove, rename, symlink, link, mkfifo ...):
  ``realpath(dirname(path)) / basename(path)`` - the last component is the entry itself;
* metadata operations (chmod, chown, utime): the audit event does not say whether the call was
  the ``l*``/``follow_symlinks=False`` flavour, so the entry-level resolution is used (never
  over-reports; actual metadata changes of outside files are caught by the tree snapshot).

The recorder does not judge; ``outside(events, allowed_roots)`` returns the recorded effects that
do not lie under any of the allowed roots.  Audit events are raised BEFORE the operation and the
high-level ``shutil.*`` events announce an intent only, so every event also stores the ``lstat``
signature of its effect location at event time; ``confirmed(events)`` keeps those whose location
has really changed.
"""
from __future__ import annotations

import os
import sys
import threading
from typing import Any, Dict, Iterable, List, Optional, Tuple

_WRITE_FLAGS = os.O_WRONLY | os.O_RDWR | os.O_CREAT | os.O_TRUNC | os.O_APPEND

# event -> indexes of the argument(s) naming the entry that is created/changed/removed
_ENTRY_EVENTS: Dict[str, Tuple[int, ...]] = {
    "os.mkdir": (0,), "os.rmdir": (0,), "os.remove": (0,), "os.rename": (0, 1),
    "os.symlink": (1,), "os.link": (1,), "os.truncate": (0,),
    "os.chmod": (0,), "os.chown": (0,), "os.utime": (0,), "os.setxattr": (0,), "os.removexattr": (0,),
    "os.mkfifo": (0,), "os.mknod": (0,),
    "shutil.copyfile": (1,), "shutil.copymode": (1,), "shutil.copystat": (1,), "shutil.copytree": (1,),
    "shutil.move": (0, 1), "shutil.rmtree": (0,), "shutil.chown": (0,), "shutil.unpack_archive": (1,),
}
# which positional argument (if any) is a dir_fd making the path relative to a descriptor
_DIRFD_ARG = {"os.mkdir": 2, "os.rmdir": 1, "os.remove": 1, "os.symlink": 2, "os.chmod": 2, "os.chown": 3,
              "os.utime": 3, "shutil.rmtree": 1}

_state = threading.local()
_installed = False
_active: Optional["Recorder"] = None


def _fs(p: Any) -> Optional[str]:
    if isinstance(p, bytes):
        try:
            return os.fsdecode(p)
        except Exception:
            return None
    if isinstance(p, str):
        return p
    if hasattr(p, "__fspath__"):
        try:
            return _fs(os.fspath(p))
        except Exception:
            return None
    return None


def resolve_entry(path: str) -> str:
    """Where the directory ENTRY `path` lives: parents resolved, last component kept."""
    path = os.path.abspath(path)
    head, tail = os.path.split(path.rstrip(os.sep) or os.sep)
    if not tail:
        return os.path.realpath(head)
    if tail in (os.curdir, os.pardir):
        return os.path.realpath(path)
    return os.path.join(os.path.realpath(head), tail)


def resolve_write(path: str) -> str:
    """Where bytes written through `path` land: everything resolved."""
    return os.path.realpath(os.path.abspath(path))


def signature(path: str):
    """What `lstat` says about one entry, reduced to what a modification changes.  Directory
    size/mtime are left out (a legitimate creation of the target inside it touches them)."""
    try:
        st = os.lstat(path)
    except OSError:
        return None
    import stat as _stat
    m = st.st_mode
    if _stat.S_ISLNK(m):
        try:
            return ("link", os.readlink(path))
        except OSError:
            return ("link", None)
    if _stat.S_ISDIR(m):
        return ("dir", _stat.S_IMODE(m), st.st_ino)
    return ("file", st.st_size, st.st_mtime_ns, _stat.S_IMODE(m), st.st_ino, st.st_uid, st.st_gid)


def confirmed(events: Iterable[Dict[str, Any]]) -> List[Dict[str, Any]]:
    """Audit events fire BEFORE the operation, which may then fail (mkdir of an existing
    directory, ...): keep the events whose effect location differs now from what it was when
    the event fired.  Call right after the observed operation."""
    out = []
    for e in events:
        now = signature(e["effect"])
        if now != e.get("pre"):
            out.append(dict(e, post=now))
    return out


def _hook(event: str, args: tuple):
    rec = _active
    if rec is None:
        return
    if event != "open" and event not in _ENTRY_EVENTS:
        return
    if getattr(_state, "busy", False):
        return
    _state.busy = True
    try:
        rec._on_event(event, args)
    except Exception as e:  # never let the monitor break the code under observation
        rec.errors.append("%s: %r" % (event, e))
    finally:
        _state.busy = False


def install():
    global _installed
    if not _installed:
        sys.addaudithook(_hook)
        _installed = True


class Recorder:
    """``with Recorder() as r: ...`` ; ``r.events`` is a list of dicts
    ``{"event", "path" (as given), "effect" (resolved location), "how": "write"|"entry"}``."""

    def __init__(self):
        self.events: List[Dict[str, Any]] = []
        self.unresolved: List[Dict[str, Any]] = []
        self.errors: List[str] = []
        self.seen_events: Dict[str, int] = {}

    def __enter__(self):
        global _active
        install()
        self._prev = _active
        _active = self
        return self

    def __exit__(self, *exc):
        global _active
        _active = self._prev
        return False

    def _on_event(self, event: str, args: tuple):
        if event == "open":
            path, mode, flags = (list(args) + [None, None, None])[:3]
            writing = False
            if isinstance(flags, int) and flags & _WRITE_FLAGS:
                writing = True
            if isinstance(mode, str) and any(c in mode for c in "wax+"):
                writing = True
            if not writing:
                return
            self.seen_events["open(w)"] = self.seen_events.get("open(w)", 0) + 1
            if isinstance(path, int):
                return  # re-opening a descriptor: the original open was already seen
            p = _fs(path)
            if p is None:
                self.unresolved.append({"event": event, "path": repr(path)})
                return
            eff = resolve_write(p)
            self.events.append({"event": "open(w)", "path": p, "effect": eff, "how": "write", "pre": signature(eff)})
            return
        self.seen_events[event] = self.seen_events.get(event, 0) + 1
        di = _DIRFD_ARG.get(event)
        if di is not None and len(args) > di and args[di] is not None:
            self.unresolved.append({"event": event, "path": repr(args[0]), "dir_fd": True})
            return
        for idx in _ENTRY_EVENTS[event]:
            if idx >= len(args):
                continue
            a = args[idx]
            if isinstance(a, int):
                self.unresolved.append({"event": event, "path": repr(a)})
                continue
            p = _fs(a)
            if p is None:
                self.unresolved.append({"event": event, "path": repr(a)})
                continue
            eff = resolve_entry(p)
            self.events.append({"event": event, "path": p, "effect": eff, "how": "entry", "pre": signature(eff)})


def is_under(path: str, root: str) -> bool:
    root = root.rstrip(os.sep)
    return path == root or path.startswith(root + os.sep)


def outside(events: Iterable[Dict[str, Any]], allowed_roots: Iterable[str]) -> List[Dict[str, Any]]:
    """Recorded effects that are not under any of `allowed_roots` (roots are realpath-ed here)."""
    roots = [os.path.realpath(r) for r in allowed_roots]
    out = []
    for e in events:
        if not any(is_under(e["effect"], r) for r in roots):
            out.append(e)
    return out
