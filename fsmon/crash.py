"""Fork-and-``os._exit`` crash runner.

``run_forked(fn, plan, watch, targets, result_path)`` forks; the child installs an
``fsmon.faults.Injector`` with `plan`, runs ``fn()`` (one update of one state file), writes what
happened (boundary list, exception class) to `result_path` and leaves with ``os._exit`` so that
neither ``atexit`` handlers nor buffered files of the parent image run twice.  When the plan is
a death plan the child disappears with status 137 in the middle of ``fn``.

``plans(boundaries, cap)`` enumerates the fault plans for one update: every boundary x
{death before, death after} x {buffered as is, flush after every write} and I/O errors
(before every operation; after = partial write / failed close).  If an update has more than
`cap` boundaries the write boundaries are thinned out evenly (all open/close/rename boundaries,
the first and last writes, and every write that crosses a buffer-size multiple are kept) and the
enumeration is reported as not exhaustive.
"""
from __future__ import annotations

import json
import os
import time
from typing import Any, Callable, Dict, List, Optional, Sequence, Tuple

from . import faults


def run_forked(fn: Callable[[], Any], plan: Dict[str, Any], watch: Sequence[str], targets: Sequence[str],
               result_path: str, timeout: float = 120.0) -> Dict[str, Any]:
    try:
        os.remove(result_path)
    except FileNotFoundError:
        pass
    pid = os.fork()
    if pid == 0:
        code = 3
        try:
            inj = faults.Injector(watch, plan, targets)
            out: Dict[str, Any] = {"raised": None, "returned": None}
            inj.install()
            try:
                rv = fn()
                out["returned"] = repr(rv)[:200]
            except BaseException as e:  # the scenario decides what it lets escape
                out["raised"] = type(e).__name__
                out["raised_msg"] = str(e)[:300]
            finally:
                inj.uninstall()
            out["boundaries"] = inj.boundaries
            out["fired"] = inj.fired
            with open(result_path + ".part", "w") as f:
                json.dump(out, f)
            os.rename(result_path + ".part", result_path)
            code = 0
        except BaseException as e:  # harness problem
            try:
                with faults._real_open(result_path + ".err", "w") as f:
                    f.write(repr(e))
            except Exception:
                pass
        finally:
            os._exit(code)
    t0 = time.time()
    status = None
    while True:
        wpid, st = os.waitpid(pid, os.WNOHANG)
        if wpid == pid:
            status = os.waitstatus_to_exitcode(st)
            break
        if time.time() - t0 > timeout:
            os.kill(pid, 9)
            os.waitpid(pid, 0)
            status = "timeout"
            break
        time.sleep(0.0005)
    outcome = None
    if os.path.exists(result_path):
        with open(result_path) as f:
            outcome = json.load(f)
    return {"status": status, "outcome": outcome}


def run_interleaved(fn_a: Callable[[], Any], fn_b: Callable[[], Any], at: int, watch: Sequence[str],
                    targets: Dict[str, str], result_path: str, flush_each: bool = False,
                    blocked: Optional[Callable[[], bool]] = None, timeout: float = 120.0) -> Dict[str, Any]:
    """One deterministic interleaving of two writers, in a forked child: thread 'A' runs fn_a and is
    stopped right before its boundary `at`; then thread 'B' runs fn_b to completion; then A is
    resumed and finishes.  The bytes of every target are recorded (hex) when A is paused, after B
    and after A.  `blocked()` (optional) is asked while A is paused: if it says that B could not
    proceed (A holds the lock that serialises the writers) B only runs after A has finished and
    the outcome says so (`"serialised": True`)."""
    import threading
    try:
        os.remove(result_path)
    except FileNotFoundError:
        pass
    pid = os.fork()
    if pid == 0:
        code = 3
        try:
            inj = faults.Injector(watch, {"mode": "pause", "thread": "A", "at": at, "flush_each": flush_each},
                                  list(targets))
            out: Dict[str, Any] = {"snapshots": [], "serialised": False, "a_reached_boundary": False}
            res: Dict[str, Any] = {}

            def runner(name, fn):
                try:
                    res[name] = {"returned": repr(fn())[:200], "raised": None}
                except BaseException as e:
                    res[name] = {"returned": None, "raised": "%s: %s" % (type(e).__name__, str(e)[:300])}

            def snap(label):
                rec = {"label": label, "files": {}}
                for n, p in targets.items():
                    try:
                        with faults._real_open(p, "rb") as f:
                            rec["files"][n] = f.read().hex()
                    except FileNotFoundError:
                        rec["files"][n] = None
                out["snapshots"].append(rec)

            inj.install()
            try:
                ta = threading.Thread(target=runner, args=("A", fn_a), name="A")
                tb = threading.Thread(target=runner, args=("B", fn_b), name="B")
                ta.start()
                while ta.is_alive() and not inj.paused.is_set():
                    inj.paused.wait(0.002)
                if inj.paused.is_set():
                    out["a_reached_boundary"] = True
                    snap("A paused before its boundary %d" % at)
                    if blocked is not None and blocked():
                        out["serialised"] = True
                    else:
                        tb.start()
                        tb.join(timeout / 3)
                        if tb.is_alive():
                            out["b_stuck"] = True
                        else:
                            snap("B complete while A is paused")
                    inj.resume.set()
                ta.join(timeout / 3)
                snap("A complete")
                if not tb.is_alive() and tb.ident is None:
                    tb.start()
                tb.join(timeout / 3)
                if out["serialised"] or not out["a_reached_boundary"]:
                    snap("B complete after A")
                out["stuck"] = ta.is_alive() or tb.is_alive()
            finally:
                inj.uninstall()
            out["results"] = res
            out["boundaries"] = inj.boundaries
            with open(result_path + ".part", "w") as f:
                json.dump(out, f)
            os.rename(result_path + ".part", result_path)
            code = 0
        except BaseException as e:
            try:
                with faults._real_open(result_path + ".err", "w") as f:
                    f.write(repr(e))
            except Exception:
                pass
        finally:
            os._exit(code)
    t0 = time.time()
    while True:
        wpid, st = os.waitpid(pid, os.WNOHANG)
        if wpid == pid:
            status: Any = os.waitstatus_to_exitcode(st)
            break
        if time.time() - t0 > timeout:
            os.kill(pid, 9)
            os.waitpid(pid, 0)
            status = "timeout"
            break
        time.sleep(0.0005)
    outcome = None
    if os.path.exists(result_path):
        with open(result_path) as f:
            outcome = json.load(f)
    return {"status": status, "outcome": outcome}


def plans(boundaries: List[Dict[str, Any]], cap: int = 10 ** 9, part: int = 0, nparts: int = 1
          ) -> Tuple[List[Dict[str, Any]], bool]:
    """All fault plans for one update (see module docstring); returns (plans, exhaustive)."""
    idx = list(range(len(boundaries)))
    exhaustive = True
    if len(idx) > cap:
        exhaustive = False
        keep = set()
        writes = [i for i in idx if boundaries[i]["op"] == "write"]
        keep.update(i for i in idx if boundaries[i]["op"] != "write")
        keep.update(writes[:6] + writes[-6:])
        # writes at which the cumulative size crosses a multiple of 4096 (buffer flushes fall there)
        tot = 0
        for i in writes:
            n = boundaries[i].get("n", 0)
            if (tot // 4096) != ((tot + n) // 4096):
                keep.add(i)
                if i + 1 < len(boundaries):
                    keep.add(i + 1)
            tot += n
        room = max(0, cap - len(keep))
        rest = [i for i in writes if i not in keep]
        if room and rest:
            stepf = len(rest) / float(room)
            keep.update(rest[int(k * stepf)] for k in range(room))
        idx = sorted(keep)
    out = []
    for i in idx:
        op = boundaries[i]["op"]
        for side in ("before", "after"):
            for fl in (False, True):
                out.append({"mode": "die", "at": i, "side": side, "flush_each": fl})
        out.append({"mode": "raise", "at": i, "side": "before", "flush_each": False})
        if op in ("write", "close"):
            out.append({"mode": "raise", "at": i, "side": "after", "flush_each": False})
    out = [p for k, p in enumerate(out) if k % nparts == part]
    return out, exhaustive
