"""Fork-and-``os._exit`` crash runner.

``run_forked(fn, plan, watch, targets, result_path)`` forks; the child installs an
``fsmon.faults.Injector`` with `plan`, runs ``fn()`` (one update of one state file), writes what
happened (boundary list, exception class) to `result_path` and leaves with ``os._exit`` so that
neither ``atexit`` handlers nor buffered files of the parent image run twice.  When the plan is
a death plan the child disappears with status 137 in the middle of ``fn``.

``plans(boundaries, cap)`` enumerates the fault plans for one update: every boundary x
{death before, death after} x {buffered as is, flush after every write} and I/O errors
(before every operation; after = partial write / failed close).  If an update has more than
`cap` boundaries the write boundaries are thinned out evenly (all open/close/rename boundaries,
the first and last writes, and every write that crosses a buffer-size multiple are kept) and the
enumeration is reported as not exhaustive.
"""
from __future__ import annotations

import json
import os
import time
from typing import Any, Callable, Dict, List, Optional, Sequence, Tuple

from . import faults


def run_forked(fn: Callable[[], Any], plan: Dict[str, Any], watch: Sequence[str], targets: Sequence[str],
               result_path: str, timeout: float = 120.0) -> Dict[str, Any]:
    try:
        os.remove(result_path)
    except FileNotFoundError:
        pass
    pid = os.fork()
    if pid == 0:
        code = 3
        try:
            inj = faults.Injector(watch, plan, targets)
            out: Dict[str, Any] = {"raised": None, "returned": None}
            inj.install()
            try:
                rv = fn()
                out["returned"] = repr(rv)[:200]
            except BaseException as e:  # the scenario decides what it lets escape
                out["raised"] = type(e).__name__
                out["raised_msg"] = str(e)[:300]
            finally:
                inj.uninstall()
            out["boundaries"] = inj.boundaries
            out["fired"] = inj.fired
            with open(result_path + ".part", "w") as f:
                json.dump(out, f)
            os.rename(result_path + ".part", result_path)
            code = 0
        except BaseException as e:  # harness problem
            try:
                with faults._real_open(result_path + ".err", "w") as f:
                    f.write(repr(e))
            except Exception:
                pass
        finally:
            os._exit(code)
    t0 = time.time()
    status = None
    while True:
        wpid, st = os.waitpid(pid, os.WNOHANG)
        if wpid == pid:
            status = os.waitstatus_to_exitcode(st)
            break
        if time.time() - t0 > timeout:
            os.kill(pid, 9)
            os.waitpid(pid, 0)
            status = "timeout"
            break
        time.sleep(0.0005)
    outcome = None
    if os.path.exists(result_path):
        with open(result_path) as f:
            outcome = json.load(f)
    return {"status": status, "outcome": outcome}


def plans(boundaries: List[Dict[str, Any]], cap: int = 10 ** 9, part: int = 0, nparts: int = 1
          ) -> Tuple[List[Dict[str, Any]], bool]:
    """All fault plans for one update (see module docstring); returns (plans, exhaustive)."""
    idx = list(range(len(boundaries)))
    exhaustive = True
    if len(idx) > cap:
        exhaustive = False
        keep = set()
        writes = [i for i in idx if boundaries[i]["op"] == "write"]
        keep.update(i for i in idx if boundaries[i]["op"] != "write")
        keep.update(writes[:6] + writes[-6:])
        # writes at which the cumulative size crosses a multiple of 4096 (buffer flushes fall there)
        tot = 0
        for i in writes:
            n = boundaries[i].get("n", 0)
            if (tot // 4096) != ((tot + n) // 4096):
                keep.add(i)
                if i + 1 < len(boundaries):
                    keep.add(i + 1)
            tot += n
        room = max(0, cap - len(keep))
        rest = [i for i in writes if i not in keep]
        if room and rest:
            stepf = len(rest) / float(room)
            keep.update(rest[int(k * stepf)] for k in range(room))
        idx = sorted(keep)
    out = []
    for i in idx:
        op = boundaries[i]["op"]
        for side in ("before", "after"):
            for fl in (False, True):
                out.append({"mode": "die", "at": i, "side": side, "flush_each": fl})
        out.append({"mode": "raise", "at": i, "side": "before", "flush_each": False})
        if op in ("write", "close"):
            out.append({"mode": "raise", "at": i, "side": "after", "flush_each": False})
    out = [p for k, p in enumerate(out) if k % nparts == part]
    return out, exhaustive
