"""Recursive snapshot / diff of a directory tree (names, kinds, sizes, mtimes, modes, link
targets, content digests).  Symlinks are never followed.  Directory mtimes/sizes are NOT part
of a snapshot (creating the target directory legitimately touches its parent)."""
from __future__ import annotations

import hashlib
import os
import stat
from typing import Any, Dict, Iterable, List, Optional, Tuple

Entry = Tuple[Any, ...]
_HASH_LIMIT = 4 * 1024 * 1024


def _digest(path: str, size: int) -> str:
    if size > _HASH_LIMIT:
        return "big"
    h = hashlib.sha1()
    try:
        with open(path, "rb") as f:
            h.update(f.read())
    except OSError as e:
        return "unreadable:%s" % e.errno
    return h.hexdigest()[:16]


def snapshot(root: str, skip: Iterable[str] = ()) -> Dict[str, Entry]:
    """{relative path: entry}.  `skip` lists absolute paths of subtrees that are left out."""
    root = root.rstrip(os.sep)
    skip = {s.rstrip(os.sep) for s in skip}
    out: Dict[str, Entry] = {}
    stack = [root]
    while stack:
        d = stack.pop()
        try:
            it = list(os.scandir(d))
        except OSError:
            continue
        for de in it:
            p = de.path
            if p in skip:
                continue
            rel = os.path.relpath(p, root)
            try:
                st = de.stat(follow_symlinks=False)
            except OSError:
                continue
            m = st.st_mode
            if stat.S_ISLNK(m):
                try:
                    out[rel] = ("link", os.readlink(p))
                except OSError:
                    out[rel] = ("link", None)
            elif stat.S_ISDIR(m):
                out[rel] = ("dir", stat.S_IMODE(m))
                stack.append(p)
            elif stat.S_ISREG(m):
                out[rel] = ("file", st.st_size, st.st_mtime_ns, stat.S_IMODE(m), st.st_nlink, _digest(p, st.st_size))
            else:
                out[rel] = ("special", stat.S_IFMT(m), stat.S_IMODE(m))
    return out


def diff(before: Dict[str, Entry], after: Dict[str, Entry]) -> List[Dict[str, Any]]:
    changes: List[Dict[str, Any]] = []
    for k in sorted(set(before) | set(after)):
        a, b = before.get(k), after.get(k)
        if a == b:
            continue
        if a is None:
            changes.append({"path": k, "change": "created", "now": list(b)})
        elif b is None:
            changes.append({"path": k, "change": "removed", "was": list(a)})
        else:
            # a hard link made to an outside file changes only its link count: still reported,
            # with its own label so that the caller can decide
            if a[0] == "file" and b[0] == "file" and a[:4] + a[5:] == b[:4] + b[5:]:
                changes.append({"path": k, "change": "nlink", "was": a[4], "now": b[4]})
            else:
                changes.append({"path": k, "change": "modified", "was": list(a), "now": list(b)})
    return changes


def restore_dir(pristine: str, live: str):
    """Make directory `live` (flat or nested, regular files/dirs/symlinks) identical to `pristine`."""
    import shutil
    for name in os.listdir(live):
        p = os.path.join(live, name)
        if os.path.isdir(p) and not os.path.islink(p):
            shutil.rmtree(p)
        else:
            os.remove(p)
    for name in os.listdir(pristine):
        s, d = os.path.join(pristine, name), os.path.join(live, name)
        if os.path.isdir(s) and not os.path.islink(s):
            shutil.copytree(s, d, symlinks=True)
        else:
            shutil.copy2(s, d, follow_symlinks=False)
