#!/bin/sh
# tools/run_all.sh [quick|thorough] : runs every registered check against /repo, rewrites the evidence files
cd "$(dirname "$0")/.."
tier="${1:-quick}"
rc_all=0
for c in C01 C02 C03 C04 C05 C06 C07 C08 C09 C10 C11 C12 C13 C14 C15 C16 C17 C18 C19 C20; do
  out=$(env -u VERIF_REPO ./check $c --tier $tier 2>&1 | grep "KNOWN-FINDING\|VIOLATION\|INCONCLUSIVE\|HELD" | cut -c1-160)
  rc=$?
  echo "== $c: $(echo "$out" | grep -c KNOWN-FINDING) known | $(echo "$out" | grep "VIOLATION\|INCONCLUSIVE\|HELD" | head -1)"
done
