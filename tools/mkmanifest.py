#!/usr/bin/env python3
"""Regenerates MANIFEST.json from the table below (kept valid at all times).
A property is *claimed* only if its entry has built=True; everything else is listed under
not_applicable with the reason given."""
import json
import os
import subprocess

ROOT = os.path.dirname(os.path.dirname(os.path.abspath(__file__)))

# id -> dict(built, level, text, note, technique, design_ref, na_reason)
TABLE = json.load(open(os.path.join(ROOT, "tools", "manifest_table.json")))

props = [json.loads(l) for l in open(os.path.join(ROOT, "properties.jsonl")) if l.strip()]


def repo_hook_commits():
    try:
        out = subprocess.run(["git", "-C", "/repo", "log", "--format=%H %s"], capture_output=True, text=True).stdout
    except Exception:
        return []
    return [l.split()[0] for l in out.splitlines() if " hook:" in l or l.split(" ", 1)[1].startswith("hook:")]


checks, na = [], []
for p in props:
    pid = p["id"]
    e = TABLE.get(pid, {})
    if e.get("built"):
        checks.append({
            "property_id": pid,
            "quick_cmd": "./check %s --tier quick" % pid,
            "thorough_cmd": "./check %s --tier thorough" % pid,
            "evidence_file": "/verif/evidence/%s.json" % pid,
            "replay_cmd_template": "./check %s --replay {path}" % pid,
            "engine": e.get("engine", "python-monitors"),
            "level_claimed": {"category": e["level"], "text": e["text"], "design_ref": e.get("design_ref", "DESIGN.md §2 " + pid)},
            "level_note": e["note"],
            "technique": e["technique"],
        })
    else:
        na.append({"property_id": pid, "reason": e.get("na_reason", "check not built yet (work in progress); the property is decidable by runtime monitoring, see DESIGN.md §2 " + pid)})

manifest = {
    "version": 1,
    "setup_cmd": "./setup.sh",
    "hooks": {
        "guard": "ST4SD_RUNTIME_CORE_VERIF",
        "enable": "export ST4SD_RUNTIME_CORE_VERIF=1 (done by ./check); the repository is pure Python, checks import /repo/python from the working tree, nothing is built",
        "baseline_off_cmd": "cd /repo && env -u ST4SD_RUNTIME_CORE_VERIF /venv/bin/python -m pytest -ra -q -p no:cacheprovider --timeout=900 --continue-on-collection-errors",
        "source_commits": repo_hook_commits(),
        "add_only": True,
    },
    "engines": [
        {"name": "python-monitors", "path": "/verif/checks", "serves_properties": [c["property_id"] for c in checks if c["engine"] == "python-monitors"],
         "kind_free_text": "runtime monitors in Python: wrapped functions / audit hooks / recorded histories judged by deterministic oracles and small reference models, fan-out over subprocesses"},
        {"name": "rt-harness", "path": "/verif/rt", "serves_properties": [c["property_id"] for c in checks if c["engine"] == "rt-harness"],
         "kind_free_text": "real Controller/ComponentState/Engine on a scripted backend with uniform time dilation, global event recorder, seeded schedule perturbation"},
    ],
    "checks": checks,
    "not_applicable": na,
    "notes": "Technique family: runtime monitoring. Exit codes: 0 held / 1 VIOLATION / 2 INCONCLUSIVE (deciding monitor not reached; never expected on the unchanged tree). Known findings: known_findings.json (mechanism keys).",
}
with open(os.path.join(ROOT, "MANIFEST.json"), "w") as f:
    json.dump(manifest, f, indent=1)
    f.write("\n")
print("claimed:", [c["property_id"] for c in checks])
print("not claimed:", [n["property_id"] for n in na])
