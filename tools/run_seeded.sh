#!/bin/sh
# tools/run_seeded.sh [ids...] : re-runs the quick tier of the owning check against every stored seeded defect
# (seeded/<id>-<n>/patch.diff applied to a scratch worktree of /repo's HEAD) and prints one line per defect:
#   <seeded> caught|MISSED|patch-does-not-apply  <first VIOLATION line>
# Worktrees live under /var/tmp and are removed as soon as the check has run.  Not part of MANIFEST (development aid).
cd "$(dirname "$0")/.."
list="$*"
[ -z "$list" ] && list=$(ls seeded | sort)
for s in $list; do
  prop=${s%%-*}
  wt=/var/tmp/seeded-wt-$s
  rm -rf "$wt"; git -C /repo worktree prune
  git -C /repo worktree add --detach "$wt" HEAD >/dev/null 2>&1 || { echo "$s worktree-failed"; continue; }
  if git -C "$wt" apply "$(pwd)/seeded/$s/patch.diff" 2>/dev/null; then
    out=$(VERIF_REPO="$wt" VERIF_EVIDENCE_DIR=/var/tmp/seeded-evidence ./check "$prop" 2>&1 | grep "^VIOLATION\|^HELD\|^INCONCLUSIVE" | head -1 | cut -c1-220)
    case "$out" in
      VIOLATION*) echo "$s caught  $out" ;;
      *) if grep -q '"neutralised_by"' "seeded/$s/meta.json" 2>/dev/null; then echo "$s neutralised-by-a-later-fix (see meta.json)  $out"; else echo "$s MISSED  $out"; fi ;;
    esac
  else
    echo "$s patch-does-not-apply"
  fi
  git -C /repo worktree remove --force "$wt" >/dev/null 2>&1
done
