"""Direct drive of a real RepeatingEngine (C13).  The harness plays the producers: it writes their
output files and delivers `notify_all_producers_finished` at a chosen suspension point of a chosen
kernel pass (points the kernel itself reaches), or at a virtual time."""
from __future__ import annotations

import os
import random
import threading
import time
from typing import Any, Dict, List, Optional

import yaml

import experiment.model.data
import experiment.runtime.engine as engine

from . import backend, dilate, harness
from .backend import BACKEND, ScriptedTask
from .recorder import REC

POINTS = ["pass.enter", "outputSince.enter", "outputSince.exit", "canConsume.enter", "canConsume.exit",
          "factory", "wait.exit", "archive", "perf", "pass.exit"]


class Inj:
    def __init__(self):
        self.lock = threading.Lock()
        self.reset()

    def reset(self):
        self.observer_ref: Optional[str] = None
        self.actions: List[Dict[str, Any]] = []      # {"point", "nth", "do": [..]}
        self.hits: Dict[str, int] = {}
        self.do_action = None
        self.kernel_thread: Optional[int] = None
        self.active = False

    def hit(self, point: str):
        if not self.active:
            return
        with self.lock:
            n = self.hits.get(point, 0) + 1
            self.hits[point] = n
            todo = [a for a in self.actions if a["point"] == point and a["nth"] == n and not a.get("done")]
            for a in todo:
                a["done"] = True
        for a in todo:
            REC.record("inject", self.observer_ref, point=point, nth=n, do=a["do"])
            self.do_action(a["do"])


INJ = Inj()
_installed = False


def install_points():
    global _installed
    if _installed:
        return
    _installed = True
    RE = engine.RepeatingEngine
    Job = experiment.model.data.Job

    def in_kernel(self_job_ref):
        return INJ.active and self_job_ref == INJ.observer_ref

    o_ps = Job.producersHaveOutputSinceDate

    def ps(self, date):
        k = in_kernel(self.reference)
        if k:
            INJ.hit("outputSince.enter")
        try:
            return o_ps(self, date)
        finally:
            if k:
                INJ.hit("outputSince.exit")
    Job.producersHaveOutputSinceDate = ps

    o_cc = RE.canConsume

    def cc(self, *a, **kw):
        k = in_kernel(self.job.reference)
        if k:
            INJ.hit("canConsume.enter")
        try:
            return o_cc(self, *a, **kw)
        finally:
            if k:
                INJ.hit("canConsume.exit")
    RE.canConsume = cc

    o_wait = ScriptedTask.wait

    def wait(self):
        r = o_wait(self)
        if in_kernel(self.ref):
            INJ.hit("wait.exit")
        return r
    ScriptedTask.wait = wait

    o_arch = engine.archive_stream

    def arch(filepath, storage_dir, stream_type, logger, max_files=5):
        if INJ.active and stream_type == "stdout":
            INJ.hit("archive")
        return o_arch(filepath, storage_dir, stream_type, logger, max_files)
    engine.archive_stream = arch

    o_perf = RE._perfData_register

    def perf(self, perfData, force_write=False):
        if in_kernel(self.job.reference) and not force_write:
            INJ.hit("perf")
        return o_perf(self, perfData, force_write)
    RE._perfData_register = perf


_uid = {"n": 0}


def _suffix(n: int) -> str:
    s = ""
    n += 1
    while n:
        n, r = divmod(n - 1, 26)
        s = "abcdefghijklmnopqrstuvwxyz"[r] + s
    return s


def make_flowir(sc: Dict[str, Any], tag: str = "") -> str:
    comps = []
    for i in range(sc.get("n_producers", 1)):
        p = {"name": "Prod%s%s" % ("ABC"[i], tag), "stage": 0, "command": {"executable": "ls", "arguments": "-d ."},
             "resourceManager": {"config": {"backend": "simulator"}}}
        if sc.get("producer_repeat"):
            p["workflowAttributes"] = {"isRepeat": True, "repeatInterval": 3.0}
        comps.append(p)
    refs = ["%s:ref" % c["name"] for c in comps]
    wa = {"isRepeat": True, "repeatInterval": sc["interval"]}
    if sc.get("retries") is not None:
        wa["repeatRetries"] = sc["retries"]
    variables = {"check-producer-output": "true" if sc.get("check_output", True) else "false"}
    if sc.get("kill_delay") is not None:
        variables["kill-after-producers-done-delay"] = str(sc["kill_delay"])
    comps.append({"name": "Obs" + tag, "stage": 0, "command": {"executable": "ls", "arguments": "-d " + " ".join(refs)},
                  "references": refs, "resourceManager": {"config": {"backend": "simulator"}},
                  "workflowAttributes": wa, "variables": variables})
    return yaml.safe_dump({"components": comps}, sort_keys=False)


def run_direct(sc: Dict[str, Any], location: str, watchdog_s: float = 60.0) -> Dict[str, Any]:
    """sc: interval, retries, check_output, kill_delay, producer_repeat, n_producers,
           obs_script: [ {reason, duration}...],
           first_output: {"point","nth"} | {"at": virtual seconds} | "initial"
           final: {"point","nth","do": ["output","notify"] | ["notify"] } | {"at": t, ...}
           extra_outputs: [ {"at": t} ... ]
    """
    harness.install_hooks()
    install_points()
    harness.CTX.current_root = location
    BACKEND.current_root = location
    REC.reset()
    INJ.reset()
    _uid["n"] += 1
    tag = _suffix(_uid["n"] + (os.getpid() % 1000) * 1000)
    obs = "stage0.Obs" + tag
    script = {"default": {"reason": "Success", "duration": 1.0},
              "components": {obs: sc["obs_script"]}, "tail": {obs: sc.get("obs_tail", {"reason": "Success", "duration": 1.0})}}
    BACKEND.reset(script)
    BACKEND.current_root = location
    res: Dict[str, Any] = {"build_error": None}
    try:
        exp = harness.build_experiment(make_flowir(sc, tag), location)
    except Exception as e:
        res["build_error"] = "%s: %s" % (type(e).__name__, str(e)[:300])
        return res
    st = exp.getStage(0)
    obs_job = st.jobWithName("Obs" + tag)
    prod_jobs = [st.jobWithName("Prod%s%s" % ("ABC"[i], tag)) for i in range(sc.get("n_producers", 1))]
    prod_dirs = [j.workingDirectory.path for j in prod_jobs]

    def sampler(ref):
        return {"prod_files": [len(os.listdir(d)) for d in prod_dirs]}
    BACKEND.launch_sampler = sampler

    eng = engine.Engine.engineForComponentSpecification(obs_job)
    assert isinstance(eng, engine.RepeatingEngine)
    counter = {"out": 0}
    state = {"notified": False}

    def write_output(which: Optional[int] = None):
        idxs = range(len(prod_dirs)) if which is None else [which]
        for i in idxs:
            counter["out"] += 1
            name = "data_%03d.txt" % counter["out"]
            with open(os.path.join(prod_dirs[i], name), "w") as f:
                f.write("payload %d\n" % counter["out"])
            REC.record("output", "stage0.Prod%s%s" % ("ABC"[i], tag), file=name)

    def do_action(todo):
        for step in todo:
            if step in ("output", "output0") and state["notified"]:
                REC.record("inject.skipped", obs, why="no producer output after the producers have finished")
            elif step == "output":
                write_output()
            elif step == "output0":
                write_output(0)
            elif step == "notify" and not state["notified"]:
                state["notified"] = True
                eng.notify_all_producers_finished()
            elif step == "extkill":
                harness.CTX.kill_tag.tag = "external"
                try:
                    eng.kill()
                finally:
                    harness.CTX.kill_tag.tag = "internal"

    INJ.observer_ref = obs
    INJ.do_action = do_action
    timers: List[threading.Timer] = []

    def at(t_virtual, todo):
        tm = threading.Timer(t_virtual / dilate.K, lambda: (REC.record("inject", obs, at=t_virtual, do=todo),
                                                            do_action(todo)))
        tm.daemon = True
        timers.append(tm)

    fo = sc.get("first_output", "initial")
    if sc.get("first_only_producer0") and len(prod_dirs) > 1:
        # only the FIRST-listed producer has output for a while; the others get theirs `others_at` virtual s later
        at(0.3, ["output0"])
        at(float(sc["first_only_producer0"]), ["output"])
    elif fo == "initial":
        write_output()
    elif "at" in fo:
        at(fo["at"], ["output"])
    else:
        INJ.actions.append({"point": fo["point"], "nth": fo["nth"], "do": ["output"]})
    for eo in sc.get("extra_outputs", []):
        at(eo["at"], ["output0"])
    fin = sc["final"]
    if "at" in fin:
        at(fin["at"], fin["do"])
    else:
        INJ.actions.append({"point": fin["point"], "nth": fin["nth"], "do": fin["do"]})
    # fallback: a final action tied to a point that is never reached is delivered at a late virtual time
    if "at" not in fin:
        def fallback():
            if not state["notified"]:
                REC.record("inject", obs, at="fallback", do=fin["do"])
                do_action(fin["do"])
        tm = threading.Timer(float(sc.get("fallback_at", 45.0)) / dilate.K, fallback)
        tm.daemon = True
        timers.append(tm)
    if sc.get("ext_kill_at") is not None:
        at(sc["ext_kill_at"], ["extkill"])

    def on_pass(comp):
        pass
    harness.CTX.point_hooks = {"kernel.enter": [lambda comp: INJ.hit("pass.enter") if comp == obs else None],
                               "kernel.exit": [lambda comp: INJ.hit("pass.exit") if comp == obs else None]}
    BACKEND.on_launch.append(lambda ref, n, job: INJ.hit("factory") if ref == obs else None)
    harness.CTX.jitter_p = 0.0
    harness.CTX.active = True
    INJ.active = True
    REC.record("engine.run", obs)
    eng.run()
    for tm in timers:
        tm.start()
    retries = sc.get("retries")
    retries = 3 if retries is None else retries
    t0 = time.time()
    verdict = None
    while True:
        if not eng.isAlive():
            verdict = "dead"
            break
        evs = REC.snapshot()
        tseq = next((e["seq"] for e in evs if e["kind"] == "notify_all_producers_finished"), None)
        if tseq is not None:
            passes_after = sum(1 for e in evs if e["kind"] == "kernel.enter" and e["comp"] == obs
                               and e["seq"] > tseq)
            if passes_after > retries + 6:
                verdict = "pass-bound-exceeded"
                break
        if time.time() - t0 > watchdog_s:
            verdict = "watchdog"
            break
        time.sleep(0.02)
    REC.record("observed.end", obs, verdict=verdict, alive=eng.isAlive(), exit=harness._safe(eng.exitReason),
               consume=eng.consume)
    # let a possible last-action pass finish, then stop everything
    time.sleep(0.1)
    INJ.active = False
    harness.CTX.active = False
    for tm in timers:
        tm.cancel()
    try:
        eng.kill()
    except Exception:
        pass
    BACKEND.close()
    res.update({"obs": obs, "verdict": verdict, "events": REC.snapshot(), "retries": retries, "consume": eng.consume,
                "notified": state["notified"], "wall_s": round(time.time() - t0, 2)})
    return res


def judge(sc: Dict[str, Any], res: Dict[str, Any]):
    """Sequence-number oracle (a)(b)(c) of DESIGN §2 C13."""
    viol: List[Dict[str, Any]] = []
    cnt = {"launches": 0, "clause_a_checked": 0, "clause_b_checked": 0, "clause_b_skipped_kill_delay": 0,
           "clause_b_skipped_external_kill": 0, "clause_b_skipped_never_consumed": 0, "clause_c_checked": 0,
           "kernel_passes": 0, "notified_runs": 0, "stopped_on_its_own": 0}
    obs = res["obs"]
    evs = [e for e in res["events"] if e["comp"] is None or e["comp"].endswith(obs.split("Obs")[1])]
    launches = [e for e in evs if e["kind"] == "launch" and e["comp"] == obs]
    exits = {e["exec"]: e for e in evs if e["kind"] == "exit" and e["comp"] == obs}
    outputs = [e for e in evs if e["kind"] == "output"]
    passes = [e for e in evs if e["kind"] == "kernel.enter" and e["comp"] == obs]
    cnt["launches"] = len(launches)
    cnt["kernel_passes"] = len(passes)
    T = next((e["seq"] for e in evs if e["kind"] == "notify_all_producers_finished"), None)
    # a pass that starts while the notification call is still in progress may not see it yet: upper-bound clauses
    # ("stops after ...") count from the return of the call, lower-bound clauses ("does not stop before ...") from its entry
    T_ret = next((e["seq"] for e in evs if e["kind"] == "notify.returned"), T)
    ext_kill = any(e["kind"] == "engine.kill" and e["comp"] == obs and e.get("tag") == "external" for e in evs)
    end = next((e for e in evs if e["kind"] == "observed.end"), None)
    # (a) never executes before there is producer output it can consume
    for l in launches:
        cnt["clause_a_checked"] += 1
        if any(n == 0 for n in l.get("prod_files", [1])):
            viol.append({"clause": "a:launched-before-any-producer-output", "launch": {k: l[k] for k in ("seq", "exec", "prod_files")}})
    if T is not None:
        cnt["notified_runs"] += 1
    if end is None:
        return viol, cnt
    if end["verdict"] == "pass-bound-exceeded":
        viol.append({"clause": "c:does-not-stop-within-bounded-attempts", "passes_after_T": sum(1 for p in passes if p["seq"] > T),
                     "retries": res["retries"]})
        return viol, cnt
    if end["verdict"] != "dead" or T is None:
        return viol, cnt
    L = max([o["seq"] for o in outputs if o["seq"] <= end["seq"]], default=None)
    if not ext_kill:
        cnt["stopped_on_its_own"] += 1
    # (b) does not stop before an execution that began after the last output
    if ext_kill:
        cnt["clause_b_skipped_external_kill"] += 1
    elif sc.get("kill_delay") is not None:
        cnt["clause_b_skipped_kill_delay"] += 1
    elif not launches and not res.get("consume"):
        cnt["clause_b_skipped_never_consumed"] += 1
    elif L is not None:
        cnt["clause_b_checked"] += 1
        if not any(l["seq"] > L for l in launches):
            viol.append({"clause": "b:stopped-without-execution-after-last-output", "last_output_seq": L, "T": T,
                         "launch_seqs": [l["seq"] for l in launches], "end_seq": end["seq"]})
    # (c) stops after the first successful execution that began after T and after L
    if not ext_kill:
        cnt["clause_c_checked"] += 1
        # "began after": judged at the level of the kernel pass that contains the launch (a pass that was
        # already under way when the notification arrived legitimately does not treat itself as the last one)
        def pass_seq(l):
            return max([p["seq"] for p in passes if p["seq"] < l["seq"]], default=0)
        after = [l for l in launches if pass_seq(l) > T_ret and (L is None or pass_seq(l) > L)]
        first_ok = next((l for l in after if exits.get(l["exec"], {}).get("reason") == "Success"), None)
        if first_ok is not None:
            later = [l for l in launches if l["seq"] > first_ok["seq"]]
            if later:
                viol.append({"clause": "c:executed-again-after-successful-final-execution", "first_ok": first_ok["seq"],
                             "later": [l["seq"] for l in later]})
        n_after = sum(1 for p in passes if p["seq"] > T_ret)
        if sc.get("kill_delay") is None and n_after > res["retries"] + 3:
            viol.append({"clause": "c:too-many-kernel-passes-after-notification", "passes_after_T": n_after,
                         "retries": res["retries"]})
        # (d) it does not stop on its own before an execution that began after the last output has succeeded, unless
        # its retries are used up: every kernel pass that started with the producers finished and did not end in a
        # successful execution (nothing to consume, failed execution, failed submission) uses one retry.  A pass
        # that straddles the notification is counted as an attempt too (lenient by one pass).
        if sc.get("kill_delay") is None and (launches or res.get("consume")):
            cnt["clause_d_checked"] = cnt.get("clause_d_checked", 0) + 1
            ok_after_L = any(not l.get("launch_error") and exits.get(l["exec"], {}).get("reason") == "Success"
                             and (L is None or l["seq"] > L) for l in launches)
            pexit = {e["n"]: e["seq"] for e in evs if e["kind"] == "kernel.exit" and e["comp"] == obs}
            attempts = [p for p in passes if not p.get("last") and (p["seq"] > T or pexit.get(p["n"], 1 << 60) > T)]
            if not ok_after_L:
                cnt["clause_d_no_success_after_last_output"] = cnt.get("clause_d_no_success_after_last_output", 0) + 1
                if len(attempts) < res["retries"] + 1:
                    viol.append({"clause": "d:stopped-before-retries-used-up-without-successful-final-execution",
                                 "attempts_after_T": len(attempts), "retries": res["retries"], "T": T, "last_output_seq": L,
                                 "launches": [{k: l.get(k) for k in ("seq", "exec", "launch_error")} for l in launches]})
    return viol, cnt


def judge_controller(nodes: Dict[str, Dict[str, Any]], result: Dict[str, Any]):
    """Clauses (a)(b)(c) for every repeating observer of a complete controller run (real notification path:
    ComponentState.stageIn subscription -> notify_all_producers_finished)."""
    viol: List[Dict[str, Any]] = []
    cnt = {"ctl_observers": 0, "ctl_clause_a_checked": 0, "ctl_clause_b_checked": 0, "ctl_clause_c_checked": 0,
           "ctl_skipped_external_kill": 0, "ctl_skipped_never_launched": 0, "ctl_never_launched_but_could_consume": 0, "ctl_skipped_no_notification": 0}
    evs = result["events"]
    if result.get("watchdog_fired"):
        return viol, cnt
    for obs, nd in nodes.items():
        if not nd.get("repeat"):
            continue
        prods = nd["preds"]
        same = [p for p in prods if nodes[p]["stage"] == nd["stage"]]
        cnt["ctl_observers"] += 1
        launches = [e for e in evs if e["kind"] == "launch" and e["comp"] == obs]
        exits = {e["exec"]: e for e in evs if e["kind"] == "exit" and e["comp"] == obs}
        passes = [e for e in evs if e["kind"] == "kernel.enter" and e["comp"] == obs]
        # (a) same-stage producers must have been launched (their working dir then holds out.stdout)
        for l in launches:
            cnt["ctl_clause_a_checked"] += 1
            for p in same:
                # number of files in the producer's working directory, sampled at the launch instant
                if l.get("pred_files", {}).get(p) == 0:
                    viol.append({"clause": "a:launched-before-any-producer-output", "observer": obs, "producer": p,
                                 "launch_seq": l["seq"]})
        T = next((e["seq"] for e in evs if e["kind"] == "notify_all_producers_finished" and e["comp"] == obs), None)
        T_ret = next((e["seq"] for e in evs if e["kind"] == "notify.returned" and e["comp"] == obs), T)
        if T is None:
            cnt["ctl_skipped_no_notification"] += 1
            continue
        kills = [e for e in evs if e["kind"] == "engine.kill" and e["comp"] == obs and e.get("alive")]
        if not kills or kills[0].get("tag") == "external":
            cnt["ctl_skipped_external_kill"] += 1
            continue
        if not launches and not result.get("consume", {}).get(obs):
            cnt["ctl_skipped_never_launched"] += 1      # never able to consume
            continue
        L = max([e["seq"] for e in evs if e["kind"] == "output" and e["comp"] in prods], default=None)
        if L is not None:
            cnt["ctl_clause_b_checked"] += 1
            if not launches:
                cnt["ctl_never_launched_but_could_consume"] += 1
            if not any(l["seq"] > L for l in launches):
                viol.append({"clause": "b:stopped-without-execution-after-last-output", "observer": obs,
                             "producer_stages": sorted({nodes[p]["stage"] for p in prods}), "observer_stage": nd["stage"],
                             "last_output_seq": L, "T": T, "launch_seqs": [l["seq"] for l in launches]})
        cnt["ctl_clause_c_checked"] += 1

        def pass_seq(l):
            return max([p["seq"] for p in passes if p["seq"] < l["seq"]], default=0)
        after = [l for l in launches if pass_seq(l) > T_ret and (L is None or pass_seq(l) > L)]
        first_ok = next((l for l in after if exits.get(l["exec"], {}).get("reason") == "Success"), None)
        if first_ok is not None:
            later = [l for l in launches if l["seq"] > first_ok["seq"]]
            if later:
                viol.append({"clause": "c:executed-again-after-successful-final-execution", "observer": obs,
                             "first_ok": first_ok["seq"], "later": [l["seq"] for l in later]})
        n_after = sum(1 for p in passes if p["seq"] > T_ret)
        if n_after > 3 + 3:
            viol.append({"clause": "c:too-many-kernel-passes-after-notification", "observer": obs, "passes_after_T": n_after})
    return viol, cnt
