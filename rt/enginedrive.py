"""Direct drive of a real (non-repeating) Engine for C12: the harness plays the controller's restart
decisions at the Engine API (run / restart / kill), so that windows the Controller hides (a kill between
restart() and the delayed launch of the new task) are exercised too."""
from __future__ import annotations

import os
import threading
import time
from typing import Any, Dict, List, Optional

import yaml

import experiment.runtime.engine as engine

from . import dilate, harness
from .backend import BACKEND
from .recorder import REC

_uid = {"n": 0}


def run_program(sc: Dict[str, Any], location: str, watchdog_s: float = 60.0) -> Dict[str, Any]:
    """sc: {jobtype, wa, seq: [exec dicts], steps: [{"op": ...}], hook_file, hook_answers}
    steps: wait_dead | restart | kill {"after": virtual s} | sleep {"t": virtual s}"""
    from . import hookbridge
    harness.install_hooks()
    harness.CTX.current_root = location
    BACKEND.current_root = location
    REC.reset()
    hookbridge.reset()
    _uid["n"] += 1
    name = "Eng" + "".join("abcdefghij"[int(c)] for c in str(_uid["n"]))
    ref = "stage0." + name
    comp = {"name": name, "stage": 0, "command": {"executable": "ls", "arguments": "-d ."},
            "resourceManager": {"config": {"backend": sc.get("jobtype", "local")}}}
    if sc.get("wa"):
        comp["workflowAttributes"] = dict(sc["wa"])
    extra = {}
    if sc.get("hook_file"):
        extra["hooks/__init__.py"] = ""
        extra["hooks/" + sc["hook_file"]] = hookbridge.HOOK_SOURCE
    script = {"default": {"reason": "Success", "duration": 1.0}, "components": {ref: sc["seq"]},
              "hooks": {name: sc.get("hook_answers") or ["Possible"]}}
    BACKEND.reset(script)
    BACKEND.current_root = location
    BACKEND.launch_sampler = None
    res: Dict[str, Any] = {"build_error": None, "ref": ref}
    try:
        exp = harness.build_experiment(yaml.safe_dump({"components": [comp]}, sort_keys=False), location, extra)
    except Exception as e:
        res["build_error"] = "%s: %s" % (type(e).__name__, str(e)[:300])
        return res
    job = exp.getStage(0).jobWithName(name)
    eng = engine.Engine.engineForComponentSpecification(job)
    harness.CTX.active = True
    harness.CTX.jitter_p = 0.0
    t0 = time.time()
    verdict = "done"

    def wait_dead(limit_v=60.0):
        t = time.time()
        while eng.isAlive():
            if time.time() - t > limit_v / dilate.K or time.time() - t0 > watchdog_s:
                return False
            time.sleep(0.01)
        return True

    REC.record("engine.run", ref)
    eng.run()
    for st in sc["steps"]:
        op = st["op"]
        if time.time() - t0 > watchdog_s:
            verdict = "watchdog"
            break
        if op == "wait_dead":
            ok = wait_dead()
            REC.record("drive.dead", ref, ok=ok, reason=harness._safe(eng.exitReason))
            if not ok:
                verdict = "not-dead"
                break
        elif op == "restart":
            if eng.isAlive():
                if not wait_dead():
                    verdict = "not-dead"
                    break
                REC.record("drive.dead", ref, ok=True, reason=harness._safe(eng.exitReason))
            REC.record("drive.restart.enter", ref)
            killer = None
            if st.get("concurrent_kill") is not None:
                # a second thread kills the engine WHILE restart() is executing (e.g. ComponentState.finish() because
                # another component failed): delay in real milliseconds, the yield injection widens restart() itself
                def _kill(delay=st["concurrent_kill"]):
                    if isinstance(delay, str):
                        # "alive[+ms]": wait until the engine looks alive again (restart() has reset its exit
                        # reason), then kill - what a thread does that stops every running component
                        t_end = time.time() + 2.0
                        while not eng.isAlive() and time.time() < t_end:
                            pass
                        extra = float(delay.partition("+")[2] or 0.0) / 1000.0
                        if extra:
                            time.sleep(extra)
                    else:
                        time.sleep(float(delay))
                    harness.CTX.kill_tag.tag = "external"
                    try:
                        eng.kill()
                    finally:
                        harness.CTX.kill_tag.tag = "internal"
                killer = threading.Thread(target=_kill, daemon=True)
                killer.start()
            try:
                code = eng.restart()
            except AssertionError as e:
                code = "AssertionError"
            if killer is not None:
                killer.join(2.0)
            REC.record("drive.restart", ref, code=code)
            if code != "RestartInitiated":
                break
        elif op == "kill":
            dilate.vsleep(st.get("after", 0.0))
            harness.CTX.kill_tag.tag = "external"
            try:
                eng.kill()
            finally:
                harness.CTX.kill_tag.tag = "internal"
        elif op == "sleep":
            dilate.vsleep(st["t"])
    # let the engine settle, then stop it
    wait_dead(20.0)
    REC.record("drive.end", ref, alive=eng.isAlive(), reason=harness._safe(eng.exitReason), restarts=eng.restarts)
    harness.CTX.active = False
    try:
        eng.kill()
    except Exception:
        pass
    BACKEND.close()
    res.update({"verdict": verdict, "events": REC.snapshot(), "wall_s": round(time.time() - t0, 2)})
    return res


def judge(sc: Dict[str, Any], policy: Dict[str, Any], res: Dict[str, Any]):
    """Engine-level automaton: what ended the previous life of the engine decides whether a restart may be
    initiated.  Truth about a kill comes from the harness's own kill events, not from what the engine reports."""
    viol: List[Dict[str, Any]] = []
    cnt = {"eng_restart_calls": 0, "eng_restart_initiated": 0, "eng_kills_effective": 0, "eng_launches": 0,
           "eng_restart_after_kill_refused": 0, "eng_kills_in_prelaunch_window": 0}
    ref = res["ref"]
    evs = [e for e in res["events"] if e["comp"] in (ref, ref.split(".", 1)[1])]
    killed = False           # an effective kill was delivered during the current life
    last_end: Optional[str] = None
    restarts = 0
    resub = 0
    launched_this_life = False
    pre = None                       # (killed, launched_this_life, last_end) as they were when restart() was entered
    kill_seq: Optional[int] = None   # effective external kill of the current life
    after_kill_execs = set()
    for e in evs:
        k = e["kind"]
        if k == "drive.restart.enter":
            pre = (killed, launched_this_life, last_end)
            killed, launched_this_life, kill_seq = False, False, None
            continue
        if k == "launch":
            cnt["eng_launches"] += 1
            if kill_seq is not None and e["seq"] > kill_seq and not e.get("launch_error"):
                after_kill_execs.add(e["exec"])
                cnt["eng_launches_after_an_effective_kill"] = cnt.get("eng_launches_after_an_effective_kill", 0) + 1
            launched_this_life = True
            le = e.get("launch_error")
            last_end = "SubmissionFailed" if le in ("OSError", "JobLaunchError") else ("UnknownIssue" if le else None)
        elif k == "exit":
            last_end = e["reason"]
            if e["exec"] in after_kill_execs and e["reason"] not in ("Killed", "Cancelled"):
                # a task that is launched although its engine had already been killed may at most be a task caught in
                # the middle of its launch, which is then killed at once; one that runs to its own exit was started
                # after the kill had been lost
                viol.append({"clause": "task-started-after-kill-ran-to-its-own-exit", "seq": e["seq"], "exec": e["exec"],
                             "reason": e["reason"], "kill_seq": kill_seq})
        elif k == "engine.kill" and e.get("alive") and e.get("tag") == "external":
            killed = True
            kill_seq = e["seq"] if kill_seq is None else kill_seq
            cnt["eng_kills_effective"] += 1
            if not launched_this_life:
                cnt["eng_kills_in_prelaunch_window"] += 1
        elif k == "drive.restart":
            cnt["eng_restart_calls"] += 1
            code = e["code"]
            if pre is not None:
                # judge the restart on what ended the PREVIOUS life; kills that arrived while restart() was executing
                # belong to the new life
                new_life = (killed, launched_this_life, kill_seq)
                killed, launched_this_life, last_end_prev = pre[0], pre[1], pre[2]
                if new_life[0]:
                    cnt["eng_kills_during_restart_call"] = cnt.get("eng_kills_during_restart_call", 0) + 1
            else:
                new_life = None
            end = last_end if pre is None else pre[2]
            if killed and not launched_this_life:
                end = "Killed"      # the kill landed before any task of this life was launched: unambiguous
            elif killed and last_end != "Killed":
                cnt["eng_kill_raced_with_natural_exit_not_judged"] = cnt.get("eng_kill_raced_with_natural_exit_not_judged", 0) + 1
            if code == "RestartInitiated":
                cnt["eng_restart_initiated"] += 1
                if end in ("Killed", "Cancelled"):
                    viol.append({"clause": "engine-restart-initiated-after-kill", "seq": e["seq"], "task_end": last_end,
                                 "killed_in_this_life": killed})
                elif end == "SubmissionFailed":
                    resub += 1
                elif end in policy["restart_on"]:
                    restarts += 1
                    if policy["max_restarts"] is not None and restarts > policy["max_restarts"]:
                        viol.append({"clause": "engine-restarts-exceed-maximum", "seq": e["seq"], "restarts": restarts,
                                     "max": policy["max_restarts"]})
                elif end is not None:
                    viol.append({"clause": "engine-restart-after-non-restartable-exit", "seq": e["seq"], "after": end})
                killed = False
                launched_this_life = False
                last_end = None
                if new_life is not None:
                    killed, launched_this_life, kill_seq = new_life
            else:
                if end == "Killed":
                    cnt["eng_restart_after_kill_refused"] += 1
                if new_life is not None and new_life[0]:
                    killed = True       # refused: no new life began, the kill belongs to the old one
            pre = None
    return viol, cnt


def run_repeating_restart(sc: Dict[str, Any], location: str, watchdog_s: float = 60.0) -> Dict[str, Any]:
    """RepeatingEngine.restart policy (at most one restart, only after ResourceExhausted): a real repeating
    engine is driven to its end (producers finished), then the harness plays the controller and calls restart()
    as long as it is granted (bounded), with the scripted exit reason of every execution."""
    from . import repeating
    harness.install_hooks()
    harness.CTX.current_root = location
    BACKEND.current_root = location
    REC.reset()
    _uid["n"] += 1
    tag = "r" + "".join("abcdefghij"[int(c)] for c in str(_uid["n"]))
    obs = "stage0.Obs" + tag
    script = {"default": {"reason": "Success", "duration": 0.5}, "components": {obs: sc["obs_script"]},
              "tail": {obs: sc["obs_tail"]}}
    BACKEND.reset(script)
    BACKEND.current_root = location
    BACKEND.launch_sampler = None
    res: Dict[str, Any] = {"build_error": None, "ref": obs}
    fl = repeating.make_flowir({"interval": 2.0, "retries": sc.get("retries", 0), "check_output": False,
                                "producer_repeat": False, "n_producers": 1}, tag)
    try:
        exp = harness.build_experiment(fl, location)
    except Exception as e:
        res["build_error"] = "%s: %s" % (type(e).__name__, str(e)[:300])
        return res
    st = exp.getStage(0)
    eng = engine.Engine.engineForComponentSpecification(st.jobWithName("Obs" + tag))
    pdir = st.jobWithName("ProdA" + tag).workingDirectory.path
    with open(os.path.join(pdir, "data.txt"), "w") as f:
        f.write("x\n")
    harness.CTX.active = True
    harness.CTX.jitter_p = 0.0
    t0 = time.time()

    def wait_dead(limit_v=80.0):
        t = time.time()
        while eng.isAlive():
            if time.time() - t > limit_v / dilate.K or time.time() - t0 > watchdog_s:
                return False
            time.sleep(0.01)
        return True

    eng.run()
    dilate.vsleep(sc.get("notify_at", 1.0))
    eng.notify_all_producers_finished()
    verdict = "done"
    for i in range(4):
        if not wait_dead():
            verdict = "not-dead"
            break
        reason = harness._safe(eng.exitReason)
        REC.record("drive.dead", obs, ok=True, reason=reason)
        code = eng.restart()
        REC.record("drive.restart", obs, code=code, engine_reason=reason)
        if code != "RestartInitiated":
            break
        dilate.vsleep(0.5)
    wait_dead(30.0)
    REC.record("drive.end", obs, alive=eng.isAlive(), reason=harness._safe(eng.exitReason), restarts=eng.restarts)
    harness.CTX.active = False
    try:
        eng.kill()
    except Exception:
        pass
    BACKEND.close()
    res.update({"verdict": verdict, "events": REC.snapshot(), "wall_s": round(time.time() - t0, 2)})
    return res


def judge_repeating(sc, res):
    """At most one restart, and only when the execution that ended the engine's life exited ResourceExhausted."""
    viol: List[Dict[str, Any]] = []
    cnt = {"rep_restart_calls": 0, "rep_restart_initiated": 0, "rep_restart_refused": 0}
    ref = res["ref"]
    last_exit = None
    initiated = 0
    for e in res["events"]:
        if e["comp"] != ref:
            continue
        if e["kind"] == "exit":
            last_exit = e["reason"]
        # a failed submission is not a task exit: the engine's exit reason stays that of the last task that ran, and
        # "the submission itself failed" is a legitimate reason to start again anyway
        elif e["kind"] == "drive.restart":
            cnt["rep_restart_calls"] += 1
            if e["code"] == "RestartInitiated":
                cnt["rep_restart_initiated"] += 1
                initiated += 1
                if initiated > 1:
                    viol.append({"clause": "repeating-engine-restarted-more-than-once", "seq": e["seq"], "n": initiated})
                if last_exit != "ResourceExhausted":
                    viol.append({"clause": "repeating-engine-restarted-after-non-ResourceExhausted", "seq": e["seq"],
                                 "last_exit": last_exit})
            else:
                cnt["rep_restart_refused"] += 1
    return viol, cnt
