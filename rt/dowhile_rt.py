"""C05 at run time: a real Controller unrolls a DoWhile (conditions printed by the scripted tasks) and a consumer
outside the loop aggregates the looped component with a :loopref reference.  Observed: the command line the
aggregating consumer is launched with (resolved by the real code at launch time, i.e. AFTER the controller has
been running its dependency analysis on the placeholders) and the command line of the consumer of the latest
instance."""
from __future__ import annotations

import os
import shutil
from typing import Any, Dict, List

import vlib

from . import harness, wfgen
from .backend import BACKEND
from .recorder import REC


def _cmdline(job) -> str:
    import experiment.model.executors
    pre, executor, post = experiment.model.executors.CommandsFromSpecification(job)
    return executor.commandLine


def run_controller_scenarios(job: Dict[str, Any], w):
    harness.setup_process(job.get("K_dil", 20.0))
    for sc in job["controller"]:
        def on_controller(ctrl):
            def on_launch(ref, exec_no, j):
                if ref.endswith(".agg") or ref.endswith(".after"):
                    try:
                        REC.record("cmdline", ref, line=_cmdline(j), exec=exec_no)
                    except Exception as e:
                        REC.record("cmdline", ref, error="%s: %s" % (type(e).__name__, e), exec=exec_no)
            BACKEND.on_launch.append(on_launch)
        loc = vlib.mkscratch("c05c")
        try:
            r = harness.run_scenario(sc["main"], sc["script"], loc, perturb_seed=sc["pseed"], jitter_p=0.2,
                                     jitter_max=0.01, storm=False, watchdog_s=job.get("watchdog_s", 120.0),
                                     extra_files={"conf/dowhile.yaml": sc["dw"]}, on_controller=on_controller)
        finally:
            shutil.rmtree(loc, ignore_errors=True)
        w.evaluated()
        w.count("controller_runs")
        if r["build_error"]:
            w.note_inconclusive("runtime DoWhile package did not load: %s" % r["build_error"])
            continue
        if r["watchdog_fired"]:
            w.count("controller_runs_watchdog")
            continue
        K, S = sc["K"], sc["loop_stage"]
        w.count("controller_iterations_instantiated", K)
        w.distinct("ctl|K%d|S%d|a%d|c%d" % (K, S, sc["after_stage"], int(sc["carried"])))
        evs = r["events"]
        inst = sorted(n for n in r["graph_nodes"] if n.endswith("#work"))
        expected_inst = ["stage%d.%d#work" % (S, k) for k in range(K + 1)]
        if sorted(inst, key=lambda n: int(n.split(".", 1)[1].split("#")[0])) != expected_inst:
            w.violation("runtime: looped instances %s, expected %s" % (inst, expected_inst),
                        {"scenario": _slim(sc), "clause": "rt_instances"})
        for e in evs:
            if e["kind"] != "cmdline":
                continue
            if "error" in e:
                w.violation("runtime: resolving the command line of %s raised %s" % (e["comp"], e["error"]),
                            {"scenario": _slim(sc), "clause": "rt_resolve_error"})
                continue
            toks = e["line"].split()[2:] if e["line"].split()[:2][-1] == "-d" else e["line"].split()[1:]
            dirs = [os.path.basename(t.rstrip("/")) for t in toks]
            if e["comp"].endswith(".agg"):
                w.count("clause_rt_aggregate_checked")
                want = ["%d#work" % k for k in range(K + 1)]
                if dirs != want:
                    w.violation("runtime: aggregate reference stage%d.work:loopref resolved to %s at launch, expected "
                                "all instances in increasing order %s" % (S, dirs, want),
                                {"scenario": _slim(sc), "clause": "rt_aggregate", "line": e["line"]})
            else:
                w.count("clause_rt_latest_checked")
                want = ["%d#work" % K]
                if dirs != want:
                    w.violation("runtime: outside reference stage%d.work:ref resolved to %s at launch, expected the "
                                "highest iteration %s" % (S, dirs, want),
                                {"scenario": _slim(sc), "clause": "rt_latest", "line": e["line"]})


def _slim(sc):
    return {k: sc[k] for k in ("K", "loop_stage", "after_stage", "carried", "main", "dw", "pseed") if k in sc}


def make_scenarios(rng, n: int, max_iter: int) -> List[Dict[str, Any]]:
    out = []
    for _ in range(n):
        dw = wfgen.gen_dowhile(rng, max_iter=max_iter, with_aggregate=True, allow_failure=False)
        dw["pseed"] = rng.randrange(1 << 30)
        out.append(dw)
    return out
