"""Generator of abstract workflow DAGs for the runtime checks, their FlowIR rendering and their
*expected* expansion (ground truth by construction: replicas, aggregation, predecessor sets).

Abstract component:
  {name, stage, refs: [producer name, ...], replicate: N|None, aggregate: bool, repeat: float|None,
   shutdownOn: [...], jobtype: 'simulator'|'local', vars: {...}, wa: {...extra workflowAttributes}}
Names are unique across the workflow and never end in a digit (replica naming is name+index).
"""
from __future__ import annotations

import random
from typing import Any, Dict, List, Optional, Tuple

import yaml

NAMES = ["Alpha", "Beta", "Gamma", "Delta", "Eps", "Zeta", "Eta", "Theta", "Iota", "Kappa", "Lam", "Mu"]


def expand(wf: Dict[str, Any]) -> Dict[str, Dict[str, Any]]:
    """Expected concrete nodes: {ref: {base, stage, index|None, preds: [ref...], repeat, aggregate, ...}}"""
    comps = {c["name"]: c for c in wf["components"]}
    order = sorted(wf["components"], key=lambda c: (c["stage"], wf["components"].index(c)))
    rep: Dict[str, Optional[int]] = {}
    for c in order:
        n = c.get("replicate")
        if not n and not c.get("aggregate"):
            for p in c["refs"]:
                if rep.get(p):
                    n = rep[p]
                    break
        rep[c["name"]] = n or None
    nodes: Dict[str, Dict[str, Any]] = {}
    for c in order:
        n = rep[c["name"]]
        copies = list(range(n)) if n else [None]
        for i in copies:
            ref = "stage%d.%s%s" % (c["stage"], c["name"], "" if i is None else str(i))
            preds = []
            for p in c["refs"]:
                pc = comps[p]
                pn = rep[p]
                if pn:
                    if i is None:  # aggregating (or non-replicated consumer cannot exist otherwise)
                        preds.extend("stage%d.%s%d" % (pc["stage"], p, k) for k in range(pn))
                    else:
                        preds.append("stage%d.%s%d" % (pc["stage"], p, i))
                else:
                    preds.append("stage%d.%s" % (pc["stage"], p))
            nodes[ref] = {
                "base": c["name"], "stage": c["stage"], "index": i, "preds": preds,
                "repeat": c.get("repeat"), "aggregate": bool(c.get("aggregate")),
                "shutdownOn": list(c.get("shutdownOn", [])),
                "pred_replicated": {("stage%d.%s%s" % (comps[p]["stage"], p, k if rep[p] else "")): bool(rep[p])
                                    for p in c["refs"] for k in (range(rep[p]) if rep[p] else [""])},
            }
    return nodes


def to_flowir(wf: Dict[str, Any]) -> str:
    comps_by_name = {c["name"]: c for c in wf["components"]}
    out = []
    for c in wf["components"]:
        refs = ["stage%d.%s:ref" % (comps_by_name[p]["stage"], p) for p in c["refs"]]
        wa: Dict[str, Any] = {}
        if c.get("replicate"):
            wa["replicate"] = c["replicate"]
        if c.get("aggregate"):
            wa["aggregate"] = True
        if c.get("repeat"):
            wa["isRepeat"] = True
            wa["repeatInterval"] = c["repeat"]
        if c.get("shutdownOn"):
            wa["shutdownOn"] = list(c["shutdownOn"])
        wa.update(c.get("wa", {}))
        variables = {}
        variables.update(c.get("vars", {}))
        doc = {
            "name": c["name"], "stage": c["stage"],
            "command": {"executable": "ls", "arguments": " ".join(["-d"] + refs) if refs else "-d ."},
            "references": refs,
            "resourceManager": {"config": {"backend": c.get("jobtype", "simulator")}},
        }
        if wa:
            doc["workflowAttributes"] = wa
        if variables:
            doc["variables"] = variables
        out.append(doc)
    flowir = {"components": out}
    if wf.get("stage_options"):
        flowir["blueprint"] = {"default": {"stages": {int(k): {"stage": v} if False else v
                                                      for k, v in wf["stage_options"].items()}}}
    return yaml.safe_dump(flowir, sort_keys=False)


def gen_workflow(rng: random.Random, max_stages: int = 3, max_comps: int = 7, allow_repeat: bool = True,
                 allow_replicate: bool = True, allow_shutdown: bool = True, jobtypes=("simulator",),
                 p_repeat: float = 0.2) -> Dict[str, Any]:
    n_stages = rng.randint(1, max_stages)
    n_comps = rng.randint(max(n_stages, 2), max_comps)
    names = rng.sample(NAMES, n_comps)
    # distribute over stages, every stage gets >= 1
    stages = list(range(n_stages)) + [rng.randrange(n_stages) for _ in range(n_comps - n_stages)]
    stages.sort()
    comps: List[Dict[str, Any]] = []
    repl_n = rng.choice([2, 2, 3]) if allow_replicate and rng.random() < 0.5 else None
    repl_used = False
    for name, st in zip(names, stages):
        earlier = [c for c in comps if c["stage"] < st]
        same = [c for c in comps if c["stage"] == st]
        c: Dict[str, Any] = {"name": name, "stage": st, "refs": [], "jobtype": rng.choice(list(jobtypes))}
        is_repeat = allow_repeat and rng.random() < p_repeat and (earlier or same)
        cands = earlier + same
        if cands:
            k = rng.choice([0, 1, 1, 1, 2, 2, 3])
            if is_repeat:
                k = max(1, k)
            picks = rng.sample(cands, min(k, len(cands)))
            c["refs"] = [p["name"] for p in picks]
        if is_repeat and c["refs"]:
            c["repeat"] = rng.choice([2.0, 3.0, 5.0])
            c["vars"] = {"check-producer-output": rng.choice(["true", "false"])}
        if repl_n and not repl_used and not c.get("repeat") and rng.random() < 0.45:
            c["replicate"] = repl_n
            repl_used = True
        if c["refs"] and rng.random() < 0.35:
            c["aggregate"] = True
        if allow_shutdown and rng.random() < 0.25:
            c["shutdownOn"] = [rng.choice(["KnownIssue", "SystemIssue"])]
        comps.append(c)
    wf = {"stages": n_stages, "components": comps}
    _sanitise(wf)
    return wf


def _sanitise(wf: Dict[str, Any]):
    """Keep the document inside what FlowIR accepts: `aggregate` only where a producer is replicated
    is not required, but a replicating component must not aggregate; repeating components never replicate."""
    nodes = None
    comps = {c["name"]: c for c in wf["components"]}
    rep: Dict[str, Optional[int]] = {}
    for c in sorted(wf["components"], key=lambda c: c["stage"]):
        if c.get("replicate") and c.get("aggregate"):
            del c["aggregate"]
        n = c.get("replicate")
        if not n and not c.get("aggregate"):
            for p in c["refs"]:
                if rep.get(p):
                    n = rep[p]
        rep[c["name"]] = n
        # an aggregating component without any replicated producer is legal (e.g. replication switched off):
        # keep it, it simply behaves like a single consumer that only shuts down with a shut-down input
    return wf


# --------------------------------------------------------------------------- DoWhile family (runtime slice)

def gen_dowhile(rng: random.Random, max_iter: int = 3, with_aggregate: bool = False, allow_failure: bool = True) -> Dict[str, Any]:
    """A small DoWhile package: src -> loop{work -> cond} -> after, with ground truth by construction.
    K further iterations are instantiated (cond prints True K times, then False)."""
    K = rng.randint(0, max_iter)
    S = rng.choice([0, 1])                      # stage the loop is imported to
    after_stage = S + rng.choice([0, 1])
    carried = rng.random() < 0.6                # loop-carried binding: work_k consumes work_{k-1}
    two_body = rng.random() < 0.4               # an extra body component in the loop
    be = "simulator"

    def comp(name, stage, refs):
        return {"name": name, "stage": stage, "command": {"executable": "ls", "arguments": "-d " + (" ".join(refs) or ".")},
                "references": list(refs), "resourceManager": {"config": {"backend": be}}}
    main = [comp("src", 0, [])]
    if S == 1:
        main.append(comp("mid", 1, ["stage0.src:ref"]))
    main.append({"name": "looper", "stage": S, "$import": "dowhile.yaml", "bindings": {"inp": "stage0.src:ref"}})
    main.append(comp("after", after_stage, ["stage%d.work:ref" % S]))
    if with_aggregate:
        # a consumer outside the loop that aggregates ALL instances of the looped component
        main.append(comp("agg", after_stage, ["stage%d.work:loopref" % S]))
    body = [comp("work", 0, ["inp:ref"])]
    if two_body:
        body.append(comp("extra", 0, ["work:ref"]))
    body.append(comp("cond", 0, ["work:ref"]))
    for b in body:
        del b["stage"]
    dw = {"type": "DoWhile", "inputBindings": {"inp": {"type": "ref"}},
          "loopBindings": {"inp": "stage0.work:ref"} if carried else {}, "condition": "cond:output", "components": body}
    # exit script
    fail_at = None
    r = rng.random()
    if r < 0.2 and allow_failure:
        fail_at = rng.randint(0, K)
    comps: Dict[str, List[Dict[str, Any]]] = {}
    for k in range(K + 1):
        comps["stage%d.%d#cond" % (S, k)] = [{"stdout": "True" if k < K else "False", "duration": rng.choice([0.5, 1.0])}]
        comps["stage%d.%d#work" % (S, k)] = [{"reason": "Success", "duration": rng.choice([0.5, 1.0, 2.0])}]
    if fail_at is not None:
        comps["stage%d.%d#work" % (S, fail_at)] = [{"reason": "KnownIssue", "duration": 1.0}]
    script = {"default": {"reason": "Success", "duration": 1.0, "files": ["out.dat"]}, "components": comps}
    # expected nodes / predecessors
    nodes: Dict[str, Dict[str, Any]] = {"stage0.src": {"stage": 0, "preds": [], "base": "src"}}
    if S == 1:
        nodes["stage1.mid"] = {"stage": 1, "preds": ["stage0.src"], "base": "mid"}
    last = K if fail_at is None else fail_at
    for k in range(last + 1):
        w = "stage%d.%d#work" % (S, k)
        nodes[w] = {"stage": S, "preds": ["stage%d.%d#work" % (S, k - 1)] if (carried and k > 0) else ["stage0.src"],
                    "base": "work"}
        if two_body:
            nodes["stage%d.%d#extra" % (S, k)] = {"stage": S, "preds": [w], "base": "extra"}
        nodes["stage%d.%d#cond" % (S, k)] = {"stage": S, "preds": [w], "base": "cond"}
    nodes["stage%d.after" % after_stage] = {"stage": after_stage, "base": "after",
                                            "preds": ["stage%d.%d#work" % (S, k) for k in range(last + 1)]}
    if with_aggregate:
        nodes["stage%d.agg" % after_stage] = {"stage": after_stage, "base": "agg", "aggregate": True,
                                              "preds": ["stage%d.%d#work" % (S, k) for k in range(last + 1)]}
    for nd in nodes.values():
        nd.setdefault("repeat", None)
        nd.setdefault("aggregate", False)
        nd.setdefault("shutdownOn", [])
        nd.setdefault("pred_replicated", {})
    return {"kind": "dowhile", "main": yaml.safe_dump({"components": main}, sort_keys=False),
            "dw": yaml.safe_dump(dw, sort_keys=False), "script": script, "nodes": nodes, "K": K, "fail_at": fail_at,
            "loop_stage": S, "after_stage": after_stage, "carried": carried}
