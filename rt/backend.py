"""Scripted backend: the *environment* of the system under test (the cluster).

`install()` replaces the task factories of the `simulator` and `local` job types by a factory that
returns `ScriptedTask` objects driven by the scenario script.  Everything above the Task API
(Engine, RepeatingEngine, ComponentState, Controller) is the repository's real code.
"""
from __future__ import annotations

import os
import threading
import time
from typing import Any, Callable, Dict, List, Optional

import experiment.model.codes as codes
import experiment.runtime.backends as backends
import experiment.runtime.errors
import experiment.runtime.task
import experiment.utilities.data

from . import dilate
from .recorder import REC

REASON_TO_RC = {
    "Success": 0, "KnownIssue": 1, "SystemIssue": 130, "UnknownIssue": -6, "Killed": -9, "Cancelled": -15,
    "ResourceExhausted": 24, "SubmissionFailed": 1,
}


class Backend:
    """Holds the scenario script and the hooks the checks attach."""

    def __init__(self):
        self.lock = threading.RLock()
        self.reset({})

    def reset(self, script: Dict[str, Any]):
        with self.lock:
            # script: {"default": {...}, "components": {ref: [exec, exec, ...]}}
            self.script = script or {}
            self.exec_count: Dict[str, int] = {}
            self.tasks: List["ScriptedTask"] = []
            # hooks: callables invoked (outside our lock) at well-defined points
            self.on_launch: List[Callable[[str, int, Any], None]] = []      # (ref, exec_no, job)
            self.launch_sampler: Optional[Callable[[str], Dict[str, Any]]] = None
            self.before_release: List[Callable[["ScriptedTask"], None]] = []
            self.gates: Dict[str, threading.Event] = {}                     # adversarial release rules
            self.max_launches_per_component: Optional[int] = None
            self.on_runaway: Optional[Callable[[str, int], None]] = None
            self.closed = False
            self.current_root = getattr(self, "current_root", None)

    def entry_for(self, ref: str, exec_no: int) -> Dict[str, Any]:
        comp = self.script.get("components", {}).get(ref, [])
        default = dict(self.script.get("default", {}))
        default.setdefault("reason", "Success")
        default.setdefault("duration", 1.0)
        if exec_no < len(comp):
            e = dict(default)
            e.update(comp[exec_no])
            return e
        tail = self.script.get("tail", {}).get(ref)
        if tail is not None:
            e = dict(default)
            e.update(tail)
            return e
        return default

    def outstanding(self) -> int:
        with self.lock:
            return sum(1 for t in self.tasks if t.isAlive())

    def close(self):
        """End of scenario: release everything so no thread blocks forever."""
        with self.lock:
            self.closed = True
            tasks = list(self.tasks)
        for g in list(self.gates.values()):
            g.set()
        for t in tasks:
            if t.isAlive():
                t._finish("Killed", harness_cleanup=True)


BACKEND = Backend()


class ScriptedTask(experiment.runtime.task.Task):
    schedulingHeaders = ["epoch-submitted", "epoch-started", "epoch-finished"]

    def __init__(self, job, ref: str, exec_no: int, entry: Dict[str, Any]):
        experiment.runtime.task.Task.__init__(self, None)
        self.job = job
        self.ref = ref
        self.exec_no = exec_no
        self.entry = entry
        self._lock = threading.Lock()
        self._done = threading.Event()
        self._reason: Optional[str] = None
        self._rc: Optional[int] = None
        self._t_submit = dilate.vnow_ts()
        self._t_finish: Optional[float] = None
        duration = float(entry.get("duration", 1.0))
        self._timer = threading.Thread(target=self._run, args=(duration,), name="task-%s-%d" % (ref, exec_no),
                                       daemon=True)
        self._timer.start()

    # -- environment side
    def _run(self, duration: float):
        if self._done.wait(duration / dilate.K):
            return
        gate = self.entry.get("gate")
        if gate:
            ev = BACKEND.gates.setdefault(gate, threading.Event())
            # a gate never blocks forever: bounded by `gate_timeout` virtual seconds
            if not ev.wait(float(self.entry.get("gate_timeout", 60.0)) / dilate.K):
                REC.record("gate.timeout", self.ref, gate=gate)
        for cb in list(BACKEND.before_release):
            try:
                cb(self)
            except Exception:
                pass
        self._finish(self.entry.get("reason", "Success"))

    def _finish(self, reason: str, harness_cleanup: bool = False):
        with self._lock:
            if self._done.is_set():
                return
            files = [] if reason == "Killed" else list(self.entry.get("files", []))
            wd = None
            try:
                wd = self.job.workingDirectory.path
            except Exception:
                pass
            # outputs appear BEFORE the exit becomes observable
            if wd and not harness_cleanup:
                for name in files:
                    try:
                        with open(os.path.join(wd, name), "a") as f:
                            f.write("%s exec %d\n" % (self.ref, self.exec_no))
                        REC.record("output", self.ref, file=name, exec=self.exec_no)
                    except OSError:
                        pass
            if wd and not harness_cleanup and self.entry.get("stdout") is not None and reason != "Killed":
                try:
                    with open(os.path.join(wd, "out.stdout"), "w") as f:
                        f.write(str(self.entry["stdout"]) + "\n")
                except OSError:
                    pass
            self._reason = reason
            self._rc = REASON_TO_RC.get(reason, 1)
            self._t_finish = dilate.vnow_ts()
            if not harness_cleanup:
                REC.record("exit", self.ref, exec=self.exec_no, reason=reason)
            self._done.set()

    # -- Task API
    def poll(self):
        return self._rc

    def wait(self):
        self._done.wait()

    def isAlive(self):
        return not self._done.is_set()

    def kill(self):
        if self.isAlive():
            REC.record("task.kill", self.ref, exec=self.exec_no)
            self._finish("Killed")
            # some backends only return from kill() after the task is gone (docker stop/rm, LSF terminate sleeps)
            lat = float(self.entry.get("kill_latency", 0.0) or 0.0)
            if lat > 0:
                time.sleep(lat / dilate.K)

    def terminate(self):
        if self.isAlive():
            REC.record("task.terminate", self.ref, exec=self.exec_no)
            self._finish("Cancelled")

    @property
    def returncode(self):
        return self._rc

    @property
    def exitReason(self):
        return self._reason

    @property
    def status(self):
        if self.isAlive():
            return codes.RUNNING_STATE
        return codes.FINISHED_STATE if self._rc == 0 else codes.FAILED_STATE

    @property
    def schedulerId(self):
        return "scripted-%s-%d" % (self.ref, self.exec_no)

    @property
    def performanceInfo(self):
        return experiment.utilities.data.Matrix()

    @classmethod
    def default_performance_info(cls):
        return experiment.utilities.data.Matrix(rows=[["None"] * 3], headers=cls.schedulingHeaders,
                                                name="SchedulingData")


def _factory(job, outputFile=None, errorFile=None):
    ref = job.reference
    # an engine of an EARLIER scenario in this process (delayed launch, restart in flight) must neither consume the
    # current scenario's script nor leave events in its history
    root = BACKEND.current_root
    if root is not None:
        try:
            if not os.path.realpath(job.workingDirectory.path).startswith(os.path.realpath(root)):
                raise experiment.runtime.errors.JobLaunchError("stale engine of an earlier scenario", None)
        except experiment.runtime.errors.JobLaunchError:
            raise
        except Exception:
            pass
    with BACKEND.lock:
        exec_no = BACKEND.exec_count.get(ref, 0)
        BACKEND.exec_count[ref] = exec_no + 1
        entry = BACKEND.entry_for(ref, exec_no)
        closed = BACKEND.closed
    sampler = None
    if BACKEND.launch_sampler is not None:
        ls = BACKEND.launch_sampler
        sampler = lambda: ls(ref)
    REC.record("launch", ref, sampler=sampler, exec=exec_no, launch_error=entry.get("launch_error"),
               planned=entry.get("reason"))
    for cb in list(BACKEND.on_launch):
        try:
            cb(ref, exec_no, job)
        except Exception:
            pass
    cap = BACKEND.max_launches_per_component
    if cap is not None and exec_no + 1 > cap and BACKEND.on_runaway is not None:
        BACKEND.on_runaway(ref, exec_no + 1)
    # the real generators create out.stdout in the working directory; keep that observable effect
    try:
        wd = job.workingDirectory.path
        with open(os.path.join(wd, outputFile or "out.stdout"), "a"):
            pass
        with open(os.path.join(wd, errorFile or "out.stderr"), "a"):
            pass
    except Exception:
        pass
    if closed:
        raise experiment.runtime.errors.JobLaunchError("scenario closed", None)
    le = entry.get("launch_error")
    if le == "OSError":
        raise OSError("scripted: submission failed (filesystem)")
    if le == "JobLaunchError":
        raise experiment.runtime.errors.JobLaunchError("scripted: submission failed", None)
    if le == "Exception":
        raise RuntimeError("scripted: unexpected launcher exception")
    task = ScriptedTask(job, ref, exec_no, entry)
    with BACKEND.lock:
        BACKEND.tasks.append(task)
    return task


_installed = False


def install(job_types=("simulator", "local")):
    global _installed
    if _installed:
        return
    for jt in job_types:
        backends.backendGeneratorMap[jt] = _factory
        backends.backendTaskMap[jt] = ScriptedTask
    _installed = True
