"""Runtime harness: real Controller / ComponentState / Engine on the scripted backend with uniform
time dilation, global event recorder and seeded schedule perturbation (DESIGN.md §1.1)."""
from __future__ import annotations

import os
import random
import shutil
import threading
import time
import traceback
import uuid
from typing import Any, Callable, Dict, List, Optional

import networkx

import experiment.model.codes as codes
import experiment.model.data
import experiment.model.storage
import experiment.runtime.control as control
import experiment.runtime.engine as engine
import experiment.runtime.errors
import experiment.runtime.monitor as monitor
import experiment.runtime.workflow as workflow

from . import backend, dilate
from .backend import BACKEND
from .recorder import REC

FINAL_STATES = (codes.FINISHED_STATE, codes.FAILED_STATE, codes.SHUTDOWN_STATE)


class Ctx:
    """Per-run context the hooks consult."""

    def __init__(self):
        self.controller: Optional[control.Controller] = None
        self.rng = random.Random(0)
        self.rng_lock = threading.Lock()
        self.jitter_p = 0.0
        self.jitter_max = 0.0
        self.active = False
        self.expected_preds: Dict[str, List[str]] = {}
        self.point_hooks: Dict[str, List[Callable[..., None]]] = {}
        self.kill_tag = threading.local()
        self.current_root: Optional[str] = None     # scratch location of the scenario that is running now
        self.slow_stagein: Dict[str, float] = {}    # component reference -> virtual seconds its stage-in takes

    def jitter(self, point: str, comp: Optional[str] = None):
        if not self.active:
            return
        for cb in self.point_hooks.get(point, ()):
            try:
                cb(comp)
            except Exception:
                pass
        if self.jitter_p <= 0:
            return
        with self.rng_lock:
            do = self.rng.random() < self.jitter_p
            d = self.rng.random() * self.jitter_max
        if do:
            time.sleep(d)


CTX = Ctx()
_hooks_installed = False
ORIGINALS: Dict[str, Any] = {}      # the repository's own functions that install_hooks() wrapped


def _cur(obj) -> bool:
    """True when `obj` (ComponentState / Engine / Controller / Job) belongs to the scenario that is running NOW.
    Engines and controllers of earlier scenarios in the same process keep living for a while (delayed launches,
    asynchronous shutdown); their events must not leak into the current history."""
    root = CTX.current_root
    if root is None:
        return True
    # objects built by new_controller() carry the root of their scenario: no file-system access is needed (the path
    # probing below raises - and used to answer True - for a stale component whose scratch directory has already been
    # removed, which let the late asynchronous shutdown of an EARLIER scenario's component into the next history)
    tag = getattr(obj, "__dict__", {}).get("_verif_root")
    if tag is not None:
        return tag == root
    try:
        if hasattr(obj, "specification"):          # ComponentState
            path = obj.specification.workingDirectory.path
        elif hasattr(obj, "job"):                  # Engine
            path = obj.job.workingDirectory.path
        elif hasattr(obj, "experiment"):           # Controller
            path = obj.experiment.instanceDirectory.location
        elif hasattr(obj, "workingDirectory"):     # Job
            path = obj.workingDirectory.path
        else:
            return True
        return os.path.realpath(path).startswith(os.path.realpath(root))
    except Exception:
        # the working directory of the object cannot be determined any more: it belongs to a scenario whose scratch
        # directory has been removed (objects of the running scenario always have theirs)
        return False


def _ref_of(component) -> str:
    try:
        return component.specification.reference
    except Exception:
        return repr(component)


def _state_of(ctrl, ref: str) -> Optional[str]:
    try:
        return ctrl.graph.nodes[ref]["component"]().state
    except Exception:
        return None


def sample_predecessors(ref: str) -> Dict[str, Any]:
    """C01 monitor: states of everything `ref` consumes from, read at the launch instant (called
    inside the recorder's critical section).  `controllerState` only moves non-final -> final so a
    non-final read here is a sound witness."""
    ctrl = CTX.controller
    if ctrl is None:
        return {}
    out: Dict[str, Any] = {}
    try:
        wg = ctrl.workflowGraph
        preds = []
        for p in ctrl.graph.predecessors(ref):
            if p in wg._placeholders:
                preds.extend(wg._placeholders[p].get("represents", []))
            else:
                preds.append(p)
        out["preds"] = {p: _state_of(ctrl, p) for p in preds}
        out["graph_preds"] = sorted(preds)
        files = {}
        for p in preds:
            try:
                files[p] = len(os.listdir(ctrl.graph.nodes[p]["component"]().specification.workingDirectory.path))
            except Exception:
                files[p] = None
        out["pred_files"] = files
    except Exception as e:
        out["preds_error"] = repr(e)
    return out


def install_hooks():
    """Wrap the boundary methods once per process. Wrappers record call-before / return-after
    events and inject seeded sleeps OUTSIDE the controller's own lock."""
    global _hooks_installed
    if _hooks_installed:
        return
    _hooks_installed = True
    BACKEND.launch_sampler = sample_predecessors

    CS = workflow.ComponentState
    C = control.Controller

    # Invariant at a hook: every assignment of ComponentState.controllerState is recorded (old -> new) by a data
    # descriptor put on the class from here (no repository edit), so "exactly one final state" is decided on the
    # assignments themselves and not on the samples the controller happens to take.
    def _cstate_get(self):
        return self.__dict__.get("_verif_cstate")

    def _cstate_set(self, value):
        old = self.__dict__.get("_verif_cstate")
        self.__dict__["_verif_cstate"] = value
        try:
            if value != old and _cur(self):
                REC.record("cs.state", _ref_of(self), old=old, new=value)
        except Exception:
            pass
    CS.controllerState = property(_cstate_get, _cstate_set)

    o_run = CS.run

    def cs_run(self):
        if not _cur(self):
            return o_run(self)
        ref = _ref_of(self)
        REC.record("cs.run", ref, sampler=lambda: sample_predecessors(ref), state=self.state)
        return o_run(self)
    CS.run = cs_run

    o_stagein = CS.stageIn

    def cs_stagein(self, *a, **kw):
        if not _cur(self):
            return o_stagein(self, *a, **kw)
        ref = _ref_of(self)
        REC.record("cs.stageIn", ref)
        slow = CTX.slow_stagein.get(ref)
        if slow and CTX.active:
            # delay injected at an existing suspension point: staging data in can take long (copies, an unstable
            # file system); the controller calls it between deciding that a component is ready and running it
            dilate.vsleep(slow)
        return o_stagein(self, *a, **kw)
    CS.stageIn = cs_stagein

    o_finish = CS.finish
    ORIGINALS["ComponentState.finish"] = o_finish

    def cs_finish(self, finalState):
        if not _cur(self):
            return o_finish(self, finalState)
        ref = _ref_of(self)
        REC.record("cs.finish", ref, final=finalState, state_before=self.state)
        CTX.jitter("cs.finish", ref)
        prev = getattr(CTX.kill_tag, "tag", "internal")
        CTX.kill_tag.tag = "external"       # an engine kill issued from finish() comes from outside the engine
        try:
            return o_finish(self, finalState)
        finally:
            CTX.kill_tag.tag = prev
    CS.finish = cs_finish

    o_restart = CS.restart

    def cs_restart(self, reason=None, code=None):
        if not _cur(self):
            return o_restart(self, reason=reason, code=code)
        ref = _ref_of(self)
        REC.record("cs.restart.enter", ref, reason=reason)
        try:
            rc = o_restart(self, reason=reason, code=code)
        except BaseException as e:
            REC.record("cs.restart.exit", ref, reason=reason, code=None, error=type(e).__name__)
            raise
        REC.record("cs.restart.exit", ref, reason=reason, code=rc)
        return rc
    CS.restart = cs_restart

    o_fc = C.finishedCheck

    def c_finished(self, state, component):
        if not _cur(self):
            return o_fc(self, state, component)
        ref = _ref_of(component)
        CTX.jitter("finishedCheck.before", ref)
        REC.record("finishedCheck.enter", ref, state=component.state)
        try:
            return o_fc(self, state, component)
        finally:
            REC.record("finishedCheck.exit", ref, state=component.state)
            CTX.jitter("finishedCheck.after", ref)
    C.finishedCheck = c_finished

    o_pm = C.postMortemCheck

    def c_postmortem(self, state, component):
        if not _cur(self):
            return o_pm(self, state, component)
        ref = _ref_of(component)
        CTX.jitter("postMortem.before", ref)
        REC.record("postMortem.enter", ref, reason=_safe(lambda: component.engine.exitReason()))
        try:
            return o_pm(self, state, component)
        finally:
            REC.record("postMortem.exit", ref, state=component.state)
            CTX.jitter("postMortem.after", ref)
    C.postMortemCheck = c_postmortem

    o_sched = C._schedule

    def c_schedule(self, migrated_components):
        if not _cur(self):
            return o_sched(self, migrated_components)
        CTX.jitter("schedule.before")
        REC.record("schedule.enter", None)
        try:
            return o_sched(self, migrated_components)
        finally:
            REC.record("schedule.exit", None)
    C._schedule = c_schedule

    o_rc = C._restartComponent

    def c_restart_component(self, component, exitReason=None, returncode=None):
        if not _cur(self):
            return o_rc(self, component, exitReason=exitReason, returncode=returncode)
        ref = _ref_of(component)
        REC.record("restartComponent.enter", ref, reason=exitReason or _safe(lambda: component.engine.exitReason()))
        rc = o_rc(self, component, exitReason=exitReason, returncode=returncode)
        REC.record("restartComponent.exit", ref, code=rc)
        return rc
    C._restartComponent = c_restart_component

    o_ff = C._fake_finish_with_state

    def c_fake_finish(self, component, new_state):
        if not _cur(self):
            return o_ff(self, component, new_state)
        REC.record("fakeFinish", _ref_of(component), final=new_state)
        return o_ff(self, component, new_state)
    C._fake_finish_with_state = c_fake_finish

    E = engine.Engine
    RE = engine.RepeatingEngine

    o_er = E.restart
    ORIGINALS["Engine.restart"] = o_er

    def e_restart(self, reason=None, code=None):
        if not _cur(self):
            return o_er(self, reason=reason, code=code)
        ref = self.job.reference
        REC.record("engine.restart.enter", ref, reason=reason, restarts=self.restarts,
                   resub=self._resubmissionAttempts)
        rc = o_er(self, reason=reason, code=code)
        REC.record("engine.restart.exit", ref, code=rc, restarts=self.restarts, resub=self._resubmissionAttempts)
        return rc
    E.restart = e_restart

    o_rer = RE.restart

    def re_restart(self, reason=None, code=None):
        if not _cur(self):
            return o_rer(self, reason=reason, code=code)
        ref = self.job.reference
        REC.record("engine.restart.enter", ref, reason=reason, restarts=self.restarts, repeating=True)
        rc = o_rer(self, reason=reason, code=code)
        REC.record("engine.restart.exit", ref, code=rc, restarts=self.restarts, repeating=True)
        return rc
    RE.restart = re_restart

    o_ek = E.kill

    def e_kill(self):
        if not _cur(self):
            return o_ek(self)
        REC.record("engine.kill", self.job.reference, alive=self.isAlive(),
                   tag=getattr(CTX.kill_tag, "tag", "internal"))
        return o_ek(self)
    E.kill = e_kill

    o_rek = RE.kill

    def re_kill(self):
        if not _cur(self):
            return o_rek(self)
        REC.record("engine.kill", self.job.reference, alive=self.isAlive(), repeating=True,
                   already=self.cancelMonitorEvent.is_set(), tag=getattr(CTX.kill_tag, "tag", "internal"))
        return o_rek(self)
    RE.kill = re_kill

    o_napf = RE.notify_all_producers_finished

    def re_notify(self):
        if not _cur(self):
            return o_napf(self)
        CTX.jitter("notify.before", self.job.reference)
        REC.record("notify_all_producers_finished", self.job.reference)
        try:
            return o_napf(self)
        finally:
            # the notification has taken effect (the engine's flag is set) only from here on
            REC.record("notify.returned", self.job.reference)
    RE.notify_all_producers_finished = re_notify

    o_cm = monitor.CreateMonitor

    def create_monitor(interval, action, cancelEvent, lastAction=True, name=None, default_polling_time=5.0):
        label = name or getattr(action, "__name__", "monitor")
        ref = label.split(" ")[0]
        counter = {"n": 0}
        root_at_creation = CTX.current_root

        def wrapped(last):
            if root_at_creation != CTX.current_root:
                return action(last)
            counter["n"] += 1
            n = counter["n"]
            REC.record("kernel.enter", ref, n=n, last=bool(last))
            CTX.jitter("kernel.enter", ref)
            try:
                return action(last)
            finally:
                REC.record("kernel.exit", ref, n=n, last=bool(last))
                CTX.jitter("kernel.exit", ref)
        wrapped.__name__ = getattr(action, "__name__", "action")
        return o_cm(interval, wrapped, cancelEvent, lastAction=lastAction, name=name,
                    default_polling_time=default_polling_time)
    monitor.CreateMonitor = create_monitor


def _safe(fn):
    try:
        return fn()
    except Exception as e:
        return "error:%s" % type(e).__name__


# --------------------------------------------------------------------------- building experiments

class FakeStatus:
    def monitorComponent(self, *a, **kw):
        pass


def build_experiment(flowir: str, location: str, extra_files: Optional[Dict[str, str]] = None,
                     check_executables: bool = True):
    package_path = os.path.join(location, "%s.package" % uuid.uuid4().hex[:12])
    os.makedirs(os.path.join(package_path, "conf"))
    with open(os.path.join(package_path, "conf", "flowir_package.yaml"), "w") as f:
        f.write(flowir)
    for path, content in (extra_files or {}).items():
        full = os.path.join(package_path, path)
        os.makedirs(os.path.dirname(full), exist_ok=True)
        with open(full, "w") as f:
            f.write(content)
    pkg = experiment.model.storage.ExperimentPackage.packageFromLocation(package_path)
    exp = experiment.model.data.Experiment.experimentFromPackage(pkg, location=location)
    exp.validateExperiment(checkExecutables=check_executables)
    return exp


def new_controller(exp, initial_stage: int = 0, do_restart_sources=None):
    comps = []
    wg = exp.experimentGraph
    for job_name in networkx.topological_sort(exp.graph):
        data = exp.graph.nodes[job_name]
        stage = exp._stages[data["stageIndex"]]
        spec = data["componentSpecification"]
        job = stage.jobWithName(spec.identification.componentName)
        comps.append(workflow.ComponentState(job, wg, create_engine=bool(stage.index >= initial_stage)))
    ctrl = control.Controller(exp, do_restart_sources=do_restart_sources)
    root = CTX.current_root
    if root is not None:
        for obj in comps + [c.engine for c in comps if getattr(c, "_engine", None) is not None] + [ctrl]:
            try:
                obj.__dict__["_verif_root"] = root
            except Exception:
                pass
    return ctrl, comps


# --------------------------------------------------------------------------- one scenario

def setup_process(K: float):
    dilate.install(K)
    backend.install()
    install_hooks()
    # the stability tracker is a process-wide singleton; make sure it exists
    monitor.MonitorExceptionTracker.defaultTracker()


def run_scenario(flowir: str, script: Dict[str, Any], location: str, perturb_seed: int = 0,
                 jitter_p: float = 0.3, jitter_max: float = 0.02, storm: bool = True,
                 watchdog_s: float = 90.0, continue_on_error: bool = False,
                 extra_files: Optional[Dict[str, str]] = None, point_hooks=None,
                 on_controller: Optional[Callable[[Any], None]] = None,
                 max_launches: Optional[int] = None, linger_v: float = 0.0,
                 slow_stagein: Optional[Dict[str, float]] = None,
                 pauses: Optional[List[List[float]]] = None,
                 pause_on_launch: Optional[Dict[str, Any]] = None) -> Dict[str, Any]:
    """Runs all stages like scripts/elaunch.py:Run and returns the observed outcome + events.
    linger_v: virtual seconds the harness keeps observing after the stage loop has returned (checks that are still
    in flight on controller threads, e.g. a 25 s post-mortem analysis, complete inside this window)."""
    CTX.current_root = location
    BACKEND.current_root = location
    REC.reset()
    BACKEND.reset(script)
    BACKEND.current_root = location
    BACKEND.launch_sampler = sample_predecessors
    res: Dict[str, Any] = {"stages": [], "build_error": None}
    try:
        exp = build_experiment(flowir, location, extra_files=extra_files)
        ctrl, comps = new_controller(exp)
    except Exception as e:
        res["build_error"] = "%s: %s" % (type(e).__name__, str(e)[:400])
        res["build_tb"] = traceback.format_exc()[-1500:]
        return res
    if os.environ.get("VERIF_TRACE_EMISSIONS"):
        for c in comps:
            try:
                ref = c.specification.reference
                c.engine.stateUpdates.subscribe(
                    on_next=lambda e, ref=ref: REC.record("engine.emit", ref, alive=e[0].get("isAlive"),
                                                          reason=e[0].get("engineExitReason", "-"), keys=sorted(e[0])[:12]),
                    on_error=lambda e: None)
                c.stateUpdates.subscribe(
                    on_next=lambda e, ref=ref: REC.record("cs.emit", ref, state=e[0].get("state"), alive=e[0].get("isAlive")),
                    on_error=lambda e: None)
            except Exception:
                pass
    # Monitor: an exception that terminates the state observable of an engine / component silences it for good (its
    # owner never hears about later exits).  Completion is normal, termination by an exception is recorded.
    for c in comps:
        try:
            ref = c.specification.reference
            c.engine.stateUpdates.subscribe(
                on_next=lambda e: None,
                on_error=lambda e, ref=ref: REC.record("observable.error", ref, which="engine.stateUpdates", err=repr(e)[:300]))
            c.stateUpdates.subscribe(
                on_next=lambda e: None,
                on_error=lambda e, ref=ref: REC.record("observable.error", ref, which="component.stateUpdates", err=repr(e)[:300]))
        except Exception:
            pass
    CTX.controller = ctrl
    CTX.rng = random.Random(perturb_seed)
    CTX.jitter_p = jitter_p
    CTX.jitter_max = jitter_max
    CTX.point_hooks = dict(point_hooks or {})
    CTX.slow_stagein = dict(slow_stagein or {})
    CTX.active = True
    if on_controller:
        on_controller(ctrl)

    runaway = {"hit": None}
    if max_launches is not None:
        BACKEND.max_launches_per_component = max_launches

        def on_runaway(ref, n):
            if runaway["hit"] is None:
                runaway["hit"] = (ref, n)
                REC.record("harness.runaway", ref, launches=n)
                threading.Thread(target=lambda: _safe(lambda: ctrl.killController("runaway")), daemon=True).start()
        BACKEND.on_runaway = on_runaway

    stop_storm = threading.Event()
    if storm:
        srng = random.Random(perturb_seed ^ 0x5eed)

        def storm_fn():
            while not stop_storm.wait(srng.random() * 0.05):
                try:
                    ctrl._event_scheduler.set()
                    REC.record("storm.wake", None)
                except Exception:
                    pass
        threading.Thread(target=storm_fn, daemon=True, name="storm").start()

    done = threading.Event()

    def stage_loop():
        try:
            n = exp.numStages()
            idx = 0
            while idx < n:
                stage = exp.getStage(idx)
                rec = {"stage": idx, "outcome": None}
                res["stages"].append(rec)
                try:
                    ctrl.initialise(stage, FakeStatus())
                    REC.record("stage.run.enter", None, stage=idx)
                    ctrl.run()
                    rec["outcome"] = "ok"
                except experiment.runtime.errors.UnexpectedJobFailureError:
                    rec["outcome"] = "UnexpectedJobFailureError"
                except experiment.runtime.errors.FinalStageNoFinishedLeafComponents:
                    rec["outcome"] = "FinalStageNoFinishedLeafComponents"
                except BaseException as e:
                    rec["outcome"] = "other:%s" % type(e).__name__
                    rec["error"] = traceback.format_exc()[-1500:]
                finally:
                    REC.record("stage.run.exit", None, stage=idx, outcome=rec["outcome"])
                    rec["states"] = _states(ctrl)
                    rec["stage_state"] = _safe(lambda: ctrl._stageStates[idx].state)
                if rec["outcome"] != "ok" and not continue_on_error:
                    break
                idx += 1
        finally:
            done.set()

    th = threading.Thread(target=stage_loop, name="stage-loop", daemon=True)
    t0 = time.time()
    th.start()
    if pauses:
        # the controller's own pause / resume interface (scripts/elaunch.py uses it for live patching): the controller
        # is put to sleep at given virtual times and woken up a few virtual seconds later
        def pauser():
            for at_v, dur_v in pauses:
                left = at_v / dilate.K - (time.time() - t0)
                if left > 0 and done.wait(left):
                    return
                if done.is_set():
                    return
                REC.record("controller.sleep", None)
                try:
                    ctrl.sleep()
                    done.wait(dur_v / dilate.K)
                finally:
                    REC.record("controller.wake_up", None)
                    ctrl.wake_up()
        threading.Thread(target=pauser, name="pauser", daemon=True).start()
    if pause_on_launch:
        # pause the controller whenever a task whose reference contains `match` is launched and wake it up `dur`
        # virtual seconds later: the task's exit (and its finished-notification) then falls inside the pause
        def on_launch(ref, n, job, _m=pause_on_launch["match"], _d=float(pause_on_launch["dur"])):
            if _m in ref and not done.is_set() and CTX.current_root == location:
                REC.record("controller.sleep", ref)
                ctrl.sleep()

                def wake():
                    REC.record("controller.wake_up", ref)
                    ctrl.wake_up()
                tm = threading.Timer(_d / dilate.K, wake)
                tm.daemon = True
                tm.start()
        BACKEND.on_launch.append(on_launch)
    finished = done.wait(watchdog_s)
    res["wall_s"] = round(time.time() - t0, 3)
    res["watchdog_fired"] = not finished
    res["runaway"] = runaway["hit"]
    if not finished:
        res["stuck_diag"] = diagnose_stuck(ctrl)
    res["final_states"] = _states(ctrl)
    REC.record("harness.states", None, key="final_states", states=dict(res["final_states"]))
    if finished and linger_v:
        dilate.vsleep(linger_v)
        res["late_states"] = _states(ctrl)
        REC.record("harness.states", None, key="late_states", states=dict(res["late_states"]))
    res["stage_states"] = {i: _safe(lambda i=i: s.state) for i, s in ctrl._stageStates.items()}
    res["consume"] = {}
    for n, d in ctrl.graph.nodes(data=True):
        try:
            c = d["component"]()
            if isinstance(c.engine, engine.RepeatingEngine):
                res["consume"][n] = bool(c.engine.consume)
        except Exception:
            pass
    res["graph_nodes"] = sorted(ctrl.graph.nodes)
    res["graph_edges"] = sorted([list(e) for e in ctrl.graph.edges])
    # shut everything down
    stop_storm.set()
    CTX.active = False
    try:
        ctrl.cleanUp()
    except Exception:
        pass
    BACKEND.close()
    if not finished:
        done.wait(5.0)
    res["events"] = REC.snapshot()
    CTX.controller = None
    return res


def _states(ctrl) -> Dict[str, str]:
    out = {}
    for n, d in ctrl.graph.nodes(data=True):
        try:
            out[n] = d["component"]().state
        except Exception:
            out[n] = "no-component"
    return out


def diagnose_stuck(ctrl) -> Dict[str, Any]:
    """Logical books at watchdog time (DESIGN §1.1 stuck classification)."""
    evs = REC.snapshot()
    last_change = 0
    for e in evs:
        if e["kind"] in ("launch", "exit", "cs.finish", "cs.run", "fakeFinish", "finishedCheck.enter",
                         "postMortem.enter", "engine.restart.exit", "task.kill"):
            last_change = e["seq"]
    passes_since = sum(1 for e in evs if e["kind"] == "schedule.enter" and e["seq"] > last_change)
    diag = {"outstanding_tasks": BACKEND.outstanding(), "schedule_passes_since_last_change": passes_since,
            "components": {}}
    for n, d in ctrl.graph.nodes(data=True):
        try:
            c = d["component"]()
            if c.state not in FINAL_STATES:
                diag["components"][n] = {
                    "state": c.state, "finishCalled": c.finishCalled,
                    "engine_alive": _safe(lambda: c.engine.isAlive()),
                    "engine_exit": _safe(lambda: c.engine.exitReason()),
                    "in_comp_done": n in ctrl.comp_done,
                    "staged_in": c in ctrl.comp_staged_in,
                }
        except Exception as e:
            diag["components"][n] = {"error": repr(e)}
    return diag


def signature(events: List[Dict[str, Any]], kinds=("launch", "exit", "cs.run", "cs.finish", "finishedCheck.enter",
                                                      "postMortem.enter", "fakeFinish")) -> str:
    import hashlib
    s = "|".join("%s:%s" % (e["kind"], e["comp"]) for e in events if e["kind"] in kinds)
    return hashlib.sha256(s.encode()).hexdigest()[:16]


# --------------------------------------------------------------------------- LINE-level yield injection

_line_yield_installed = False


def install_line_yield(p: float, seed: int = 0, sleep_s: float = 0.0):
    """sys.monitoring LINE events restricted to control.py / workflow.py / engine.py: with probability p the
    running thread yields (sleep(0) or a short sleep).  Only yields where the interpreter could pre-empt anyway,
    so it cannot manufacture impossible interleavings."""
    global _line_yield_installed
    if _line_yield_installed or p <= 0:
        return
    import sys
    mon = sys.monitoring
    tool = mon.PROFILER_ID
    try:
        mon.use_tool_id(tool, "verif-line-yield")
    except ValueError:
        return
    files = tuple(os.path.realpath(m.__file__) for m in (control, workflow, engine))
    rng = random.Random(seed)
    counter = {"lines": 0, "yields": 0}

    def on_line(code, line):
        if os.path.realpath(code.co_filename) not in files:
            return mon.DISABLE
        counter["lines"] += 1
        if rng.random() < p:
            counter["yields"] += 1
            time.sleep(sleep_s)
        return None

    mon.register_callback(tool, mon.events.LINE, on_line)
    mon.set_events(tool, mon.events.LINE)
    _line_yield_installed = True
    return counter


# --------------------------------------------------------------------------- targeted yield injection

_targeted_installed = False
TARGET_FUNCTIONS = (
    # (module, top-level qualname, names of nested functions to include) - the hand-off points between the threads
    # that generate engine / component state snapshots and the threads that deliver them
    ("engine", "Engine.emit_now", ("drain",)),
    ("engine", "Engine._setExitReason", ()),
    ("engine", "Engine.restart", ()),
    ("workflow", "ComponentState.__init__", ("UpdateStateBasedOnEngine", "StateFilter")),
    ("workflow", "ComponentState.finish", ("Setter", "stop_engine")),
)


CONTROLLER_TARGETS = (
    # the controller's callbacks and the component-state transitions they drive: pauses BETWEEN their critical
    # sections let notifications about one component arrive while another one is being stopped / restarted
    ("control", "Controller.finishedCheck", ()),
    ("control", "Controller.postMortemCheck", ()),
    ("control", "Controller._restartComponent", ()),
    ("control", "Controller._stopComponents", ()),
    ("control", "Controller.kill_all_components", ()),
    ("control", "Controller._fake_finish_with_state", ()),
    ("control", "Controller.finalize_submit_components", ("safe_observe", "check_for_push_notification")),
    ("control", "Controller._schedule", ()),
    ("control", "Controller.wake_up", ()),
    ("control", "Controller.sleep", ()),
    ("control", "Controller.observe_engine_change", ()),
    ("control", "Controller._handle_condition_component_finished", ()),
    ("control", "TransitionComponentToFinalState", ()),
    ("workflow", "ComponentState.finish", ("Setter", "stop_engine")),
    ("workflow", "ComponentState.restart", ()),
    ("engine", "Engine.restart", ()),
    ("engine", "Engine.kill", ()),
    ("engine", "RepeatingEngine.kill", ()),
    ("engine", "RepeatingEngine.notify_all_producers_finished", ()),
)


LIFECYCLE_TARGETS = (
    # the engine's own life cycle: launch pipeline, exit handling, termination, restart, and the state snapshot
    ("engine", "Engine.run", ("LaunchTask", "SetLaunchTime", "HandleTaskExit", "HandleTaskObservableException", "Terminate")),
    ("engine", "Engine._setExitReason", ()),
    ("engine", "Engine.restart", ()),
    ("engine", "Engine.kill", ()),
    ("engine", "Engine.shutdown", ()),
    ("engine", "Engine._create_termination_observable", ()),
    ("engine", "RepeatingEngine.run", ("EngineTaskController", "schedule_next_instance")),
    ("engine", "RepeatingEngine.kill", ()),
    ("engine", "RepeatingEngine.restart", ()),
    ("engine", "RepeatingEngine.notify_all_producers_finished", ()),
    ("workflow", "ComponentState.stageIn", ()),
    ("workflow", "ComponentState.restart", ()),
)


def _original_function(fn, name, module_file):
    """The repository's function behind a harness wrapper (wrappers keep it in a closure cell)."""
    seen = set()
    todo = [fn]
    while todo:
        f = todo.pop()
        f = getattr(f, "__func__", f)
        if id(f) in seen or not hasattr(f, "__code__"):
            continue
        seen.add(id(f))
        if f.__code__.co_name == name and f.__code__.co_filename.endswith(module_file):
            return f
        for cell in (f.__closure__ or ()):
            try:
                v = cell.cell_contents
            except ValueError:
                continue
            if callable(v):
                todo.append(v)
    return None


def install_targeted_yield(p: float = 0.3, max_sleep: float = 0.004, seed: int = 0, which: str = "emission",
                           extra_long=()):
    """LINE events restricted to a handful of code objects (sys.monitoring local events): with probability p the
    thread sleeps up to max_sleep at a line boundary inside the snapshot hand-off functions.  Cheap enough for the
    quick tier; it widens windows that exist anyway (a thread can be pre-empted at any line boundary)."""
    global _targeted_installed
    if _targeted_installed or p <= 0:
        return None
    import sys
    import types
    mon = sys.monitoring
    tool = mon.OPTIMIZER_ID
    try:
        mon.use_tool_id(tool, "verif-targeted-yield")
    except ValueError:
        return None
    mods = {"engine": engine, "workflow": workflow, "control": control}
    rng = random.Random(seed)
    lock = threading.Lock()
    counter = {"lines": 0, "yields": 0, "code_objects": 0}

    def nested(code, names):
        out = []
        for c in code.co_consts:
            if isinstance(c, types.CodeType):
                if c.co_name in names:
                    out.append(c)
                out.extend(nested(c, names))
        return out

    long_pause = set()      # code objects that DELIVER a snapshot: occasionally a much longer pause (a thread that
                            # loses the CPU between taking a snapshot off the queue and handing it on)

    def on_line(code, line):
        with lock:
            counter["lines"] += 1
            if code in long_pause and rng.random() < 0.12:
                do, d = True, 0.01 + rng.random() * 0.03
            else:
                do = rng.random() < p
                d = rng.random() * max_sleep
        if do:
            counter["yields"] += 1
            time.sleep(d)

    mon.register_callback(tool, mon.events.LINE, on_line)
    targets = {"emission": TARGET_FUNCTIONS, "controller": CONTROLLER_TARGETS,
               "both": TARGET_FUNCTIONS + CONTROLLER_TARGETS, "lifecycle": LIFECYCLE_TARGETS,
               "all": TARGET_FUNCTIONS + CONTROLLER_TARGETS + LIFECYCLE_TARGETS}[which]
    counter["which"] = which
    done_codes = set()
    for mod, qual, inner in targets:
        obj = mods[mod]
        try:
            if qual in ORIGINALS:
                fn = ORIGINALS[qual]
            else:
                for part in qual.split("."):
                    obj = getattr(obj, part)
                fn = _original_function(obj, qual.split(".")[-1], mod + ".py")
            code = fn.__code__
        except Exception:
            counter["unresolved"] = counter.get("unresolved", 0) + 1
            continue
        if code in done_codes:
            continue
        done_codes.add(code)
        codes = [code] + nested(code, set(inner))
        for c in codes:
            mon.set_local_events(tool, c, mon.events.LINE)
            counter["code_objects"] += 1
            if c.co_name in ("drain", "UpdateStateBasedOnEngine", "finish", "stop_engine") or c.co_name in extra_long:
                # finish(): a thread that loses the CPU between asking its engine to stop and the next statement
                long_pause.add(c)
    _targeted_installed = True
    return counter
