"""Bridge used by generated restart-hook files (hooks/<name>.py in a generated package): the hook's
answer comes from the scenario script, every invocation is recorded."""
from __future__ import annotations

import experiment.model.codes as codes

from .backend import BACKEND
from .recorder import REC

HOOK_SOURCE = '''import rt.hookbridge as hb


def Restart(workingDirectory, restarts, componentName, log, exitReason, exitCode):
    return hb.answer(workingDirectory, restarts, componentName, exitReason, exitCode)
'''

_calls = {}


def reset():
    _calls.clear()


def answer(workingDirectory, restarts, componentName, exitReason, exitCode):
    hooks = BACKEND.script.get("hooks", {})
    answers = hooks.get(componentName) or hooks.get("*") or ["Possible"]
    n = _calls.get(componentName, 0)
    _calls[componentName] = n + 1
    a = answers[n % len(answers)]
    REC.record("hook.call", componentName, n=n, answer=a, reason=exitReason, restarts=restarts)
    if a == "raiseIOError":
        raise IOError("scripted hook IOError")
    if a == "raiseValueError":
        raise ValueError("scripted hook ValueError")
    if a in ("Possible", "NotRequired", "NotPossible", "HookFailed", "HookNotAvailable"):
        key = {"Possible": "RestartContextRestartPossible", "NotRequired": "RestartContextRestartNotRequired",
               "NotPossible": "RestartContextRestartNotPossible", "HookFailed": "RestartContextHookFailed",
               "HookNotAvailable": "RestartContextHookNotAvailable"}[a]
        return codes.restartContexts[key]
    if a == "True":
        return True
    if a == "False":
        return False
    if a == "None":
        return None
    if a == "42":
        return 42
    if a == "junk":
        return "x"
    return a
