"""Uniform time dilation of the runtime (DESIGN.md §1.1).

Every clock and timer the runtime modules use is scaled by the same factor K so that the RATIOS
between timers are those of the shipped constants.  Nothing is zeroed.

virtual(now) = t0 + (real(now) - t0) * K        sleep(s) -> real sleep(s / K)
"""
from __future__ import annotations

import datetime as _dt
import threading
import time as _time
import types

K = 1.0
_T0 = _time.time()
_installed = False


def vnow_ts() -> float:
    return _T0 + (_time.time() - _T0) * K


def real_to_virtual_ts(ts: float) -> float:
    return _T0 + (ts - _T0) * K


def vsleep(virtual_seconds: float):
    _time.sleep(max(0.0, virtual_seconds) / K)


class _VDateTime(_dt.datetime):
    """datetime.datetime whose now()/utcnow() read the virtual clock and whose
    fromtimestamp() maps REAL timestamps (file mtimes) onto the virtual time line."""

    @classmethod
    def now(cls, tz=None):
        return _dt.datetime.fromtimestamp(vnow_ts(), tz)

    @classmethod
    def utcnow(cls):
        return _dt.datetime.utcfromtimestamp(vnow_ts())

    @classmethod
    def fromtimestamp(cls, ts, tz=None):
        return _dt.datetime.fromtimestamp(real_to_virtual_ts(ts), tz)


class _ModuleProxy(types.ModuleType):
    def __init__(self, real, overrides):
        super().__init__(real.__name__)
        object.__setattr__(self, "_real", real)
        object.__setattr__(self, "_over", overrides)

    def __getattr__(self, name):
        over = object.__getattribute__(self, "_over")
        if name in over:
            return over[name]
        return getattr(object.__getattribute__(self, "_real"), name)


class DilatedEvent(threading.Event):
    """threading.Event whose wait(timeout) waits timeout/K (Controller._event_scheduler)."""

    def wait(self, timeout=None):
        if timeout is not None:
            timeout = timeout / K
        return super().wait(timeout)


def install(k: float):
    """Rebind the names `reactivex`, `time`, `datetime` inside the runtime modules to scaled
    proxies and scale the engine's module constants.  Idempotent per process (K fixed)."""
    global K, _T0, _installed
    import reactivex
    import experiment.runtime.engine as engine
    import experiment.runtime.workflow as workflow
    import experiment.runtime.control as control
    import experiment.runtime.monitor as monitor
    import experiment.model.storage as storage

    if _installed:
        if k != K:
            raise RuntimeError("dilation factor is fixed per process (have %s, asked %s)" % (K, k))
        return
    K = float(k)
    _T0 = _time.time()

    def v_interval(period, scheduler=None):
        if isinstance(period, _dt.timedelta):
            period = period.total_seconds()
        return reactivex.interval(period / K, scheduler=scheduler)

    def v_timer(duetime, period=None, scheduler=None):
        if isinstance(duetime, _dt.timedelta):
            duetime = duetime.total_seconds()
        if period is not None:
            if isinstance(period, _dt.timedelta):
                period = period.total_seconds()
            period = period / K
        return reactivex.timer(duetime / K, period, scheduler=scheduler)

    rx_proxy = _ModuleProxy(reactivex, {"interval": v_interval, "timer": v_timer})
    time_proxy = _ModuleProxy(_time, {"sleep": vsleep, "time": vnow_ts})
    dt_proxy = _ModuleProxy(_dt, {"datetime": _VDateTime})

    for mod in (engine, workflow, control):
        mod.reactivex = rx_proxy
    control.time = time_proxy
    monitor.time = time_proxy
    for mod in (engine, monitor, control, storage):
        mod.datetime = dt_proxy

    # module constants + the default argument frozen at import time
    engine.ENGINE_RUN_START_DELAY_SECONDS = engine.ENGINE_RUN_START_DELAY_SECONDS / K
    engine.ENGINE_LAUNCH_DELAY_SECONDS = engine.ENGINE_LAUNCH_DELAY_SECONDS / K
    engine.Engine.run.__defaults__ = (reactivex.timer(engine.ENGINE_RUN_START_DELAY_SECONDS),)

    # Controller._event_scheduler.wait(5): created per Controller in __init__
    orig_init = control.Controller.__init__

    def init(self, *a, **kw):
        orig_init(self, *a, **kw)
        self._event_scheduler = DilatedEvent()

    control.Controller.__init__ = init
    _installed = True
