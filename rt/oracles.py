"""Oracles over recorded event histories (sequence numbers only) and the small reference models
they compare against.  Written from the property statements, not from the code under test."""
from __future__ import annotations

from typing import Any, Dict, List, Optional, Tuple

FINAL = ("finished", "failed", "component_shutdown")
FINISHED, FAILED, SHUTDOWN = FINAL


# --------------------------------------------------------------------------- C01

def c01_check(nodes: Dict[str, Dict[str, Any]], events: List[Dict[str, Any]]) -> Tuple[List[Dict[str, Any]], Dict[str, int]]:
    """Launch-order invariant.  `nodes` is the by-construction expansion (wfgen.expand)."""
    viol: List[Dict[str, Any]] = []
    cnt = {"launch_checks": 0, "pred_checks": 0, "subject_exception_used": 0, "graph_pred_mismatch": 0,
           "clause_failed_checked": 0, "clause_shutdown_checked": 0, "pred_final_at_launch": 0}
    submitted = set()      # components whose ComponentState.run() has been recorded
    recorded_final: Dict[str, int] = {}     # finishedCheck.exit seq: the controller has recorded the final state
    pass_start: Dict[str, int] = {}         # thread -> seq of the scheduler pass it is currently running
    decided_in_pass: Dict[str, set] = {}    # thread -> components the scheduler itself finished in this pass
    cnt["subject_final_unrecorded_at_submission"] = 0
    for e in events:
        k = e["kind"]
        if k == "finishedCheck.exit":
            recorded_final.setdefault(e["comp"], e["seq"])
        elif k == "schedule.enter":
            pass_start[e["thread"]] = e["seq"]
            decided_in_pass[e["thread"]] = set()
        elif k == "fakeFinish":
            decided_in_pass.setdefault(e["thread"], set()).add(e["comp"])
        if k not in ("launch", "cs.run"):
            continue
        x = e["comp"]
        nd = nodes.get(x)
        if nd is None or "preds" not in e:
            if k == "cs.run":
                submitted.add(x)
            continue
        cnt["launch_checks"] += 1
        exp_preds = sorted(nd["preds"])
        if sorted(e.get("graph_preds", [])) != exp_preds:
            cnt["graph_pred_mismatch"] += 1
        states = e["preds"]
        is_repeat = bool(nd.get("repeat"))
        for p in exp_preds:
            s = states.get(p)
            cnt["pred_checks"] += 1
            pn = nodes.get(p, {})
            if s not in FINAL:
                ok = is_repeat and pn.get("stage") == nd["stage"] and (p in submitted)
                if ok:
                    cnt["subject_exception_used"] += 1
                else:
                    viol.append({"clause": "launched-before-producer-final", "event": _slim(e), "consumer": x,
                                 "producer": p, "producer_state": s, "producer_submitted": p in submitted,
                                 "consumer_repeating": is_repeat})
                continue
            cnt["pred_final_at_launch"] += 1
            # failed / shut-down clauses: at every submission for non-repeating consumers, at the
            # component's own submission (cs.run) only for repeating ones (an observer that is already
            # running may legitimately execute again while the asynchronous stop is in flight)
            if is_repeat and k != "cs.run":
                continue
            if is_repeat and pn.get("stage") == nd["stage"]:
                # P is a SUBJECT of X: it may legitimately still be running when X is submitted, hence it may also
                # reach failed/shut-down at any instant between the scheduler's decision and X.run().  The clause
                # applies only if the scheduler knew: the controller had recorded P's final state before the
                # pass that submitted X began, or the scheduler itself finished P earlier in this very pass.
                th = e.get("thread")
                # "Before the pass began" is decided on the lock the controller itself uses: finishedCheck(P) needs
                # comp_lock, and the scheduler decides about X and runs X inside ONE comp_lock section; so when
                # finishedCheck(P) has returned before X.run(), the whole decision was made after P's final state was
                # recorded (a pass that had decided earlier would still hold the lock and finishedCheck(P) could not
                # have returned yet).
                known = (p in recorded_final and recorded_final[p] < e["seq"]) or \
                        (p in decided_in_pass.get(th, ()))
                if not known:
                    cnt["subject_final_unrecorded_at_submission"] += 1
                    continue
            cnt["clause_failed_checked"] += 1
            if s == FAILED:
                viol.append({"clause": "launched-with-failed-producer", "event": _slim(e), "consumer": x,
                             "producer": p})
            if not nd.get("aggregate"):
                cnt["clause_shutdown_checked"] += 1
                if s == SHUTDOWN:
                    viol.append({"clause": "non-aggregating-launched-with-shutdown-producer", "event": _slim(e),
                                 "consumer": x, "producer": p})
        if k == "cs.run":
            submitted.add(x)
    return viol, cnt


def c01_window_exercised(events: List[Dict[str, Any]]) -> int:
    """Number of scheduler passes that ran while some component was final but not yet recorded by the
    controller (between its cs.finish / fakeFinish and the exit of its finishedCheck)."""
    open_since: Dict[str, int] = {}
    n = 0
    for e in events:
        k = e["kind"]
        if k == "cs.finish":
            open_since.setdefault(e["comp"], e["seq"])
        elif k == "finishedCheck.exit":
            open_since.pop(e["comp"], None)
        elif k == "schedule.enter" and open_since:
            n += 1
    return n


def _slim(e):
    return {k: v for k, v in e.items() if k in ("seq", "kind", "comp", "exec", "preds", "thread")}


# --------------------------------------------------------------------------- restart policy (shared)

def final_reason(execs: List[Dict[str, Any]], restart_on=("ResourceExhausted",), max_restarts: Optional[int] = 3,
                 max_resub: int = 5) -> Tuple[str, int]:
    """Reference automaton for a NON-repeating component: the exit reason that decides its final
    state, and the number of launches, given the scripted outcome of each execution.
    Only used on scripts inside the domain documented in DESIGN (restarts and resubmissions are not mixed
    at their caps)."""
    restarts = 0
    resub = 0
    i = 0
    while True:
        e = execs[i] if i < len(execs) else {"reason": "Success"}
        i += 1
        le = e.get("launch_error")
        if le in ("OSError", "JobLaunchError"):
            r = "SubmissionFailed"
        elif le == "Exception":
            r = "UnknownIssue"
        else:
            r = e.get("reason", "Success")
        if r == "Success":
            return r, i
        if r in restart_on:
            if max_restarts is not None and max_restarts != -1 and restarts + 1 > max_restarts:
                return r, i
            restarts += 1
            continue
        if r == "SubmissionFailed":
            if resub < max_resub:
                resub += 1
                continue
            return r, i
        return r, i


# --------------------------------------------------------------------------- C02

def c02_expected(nodes: Dict[str, Dict[str, Any]], script: Dict[str, Any],
                 override: Optional[Dict[str, str]] = None) -> Dict[str, Any]:
    """Rule-given final state of every node + whether some task exits unrecoverably.
    Repeating components are scripted to succeed (their engine reports Success when stopped)."""
    comps = script.get("components", {})
    rule: Dict[str, str] = {}
    own_reason: Dict[str, str] = {}
    unrecoverable: List[str] = []
    order = list(nodes)  # wfgen.expand emits producers before consumers
    for x in order:
        nd = nodes[x]
        preds = nd["preds"]
        ps = [rule[p] for p in preds]
        shut = False
        if override and x in override:
            rule[x] = override[x]
            own_reason[x] = "override(known finding)"
            continue
        if any(s == FAILED for s in ps):
            rule[x] = SHUTDOWN
            own_reason[x] = "never-ran(failed producer)"
            continue
        if nd.get("aggregate"):
            repl = [p for p in preds if nd["pred_replicated"].get(p)]
            nonrepl = [p for p in preds if not nd["pred_replicated"].get(p)]
            if any(rule[p] == SHUTDOWN for p in nonrepl) or (repl and all(rule[p] == SHUTDOWN for p in repl)):
                shut = True
        else:
            if any(s == SHUTDOWN for s in ps):
                shut = True
        if shut:
            rule[x] = SHUTDOWN
            own_reason[x] = "never-ran(shutdown producer)"
            continue
        if nd.get("repeat"):
            rule[x] = FINISHED
            own_reason[x] = "Success"
            continue
        r, _ = final_reason(comps.get(x, []))
        own_reason[x] = r
        if r == "Success":
            rule[x] = FINISHED
        elif r in nd.get("shutdownOn", []):
            rule[x] = SHUTDOWN
        else:
            rule[x] = FAILED
            unrecoverable.append(x)
    return {"rule": rule, "own_reason": own_reason, "unrecoverable": unrecoverable}


def c02_running_observers_of_shutdown_subjects(nodes, script, result) -> Dict[str, str]:
    """Known mechanism C02:running-observer-of-subject-that-shuts-down-ends-finished, decided structurally on
    the recorded history: X is a repeating component, the rules give SHUTDOWN for X only because a same-stage
    producer P ends SHUTDOWN, X had already been submitted (cs.run) when P received its final state, and X ended
    FINISHED.  Returns {X: 'finished'}."""
    exp = c02_expected(nodes, script)
    rule = exp["rule"]
    evs = result["events"]
    run_seq = {}
    fin_seq = {}
    for e in evs:
        if e["kind"] == "cs.run":
            run_seq.setdefault(e["comp"], e["seq"])
        elif e["kind"] == "cs.finish" and e.get("final") == SHUTDOWN:
            fin_seq.setdefault(e["comp"], e["seq"])
    out = {}
    states = {n: st for s in result["stages"] for n, st in s.get("states", {}).items()}
    for x, nd in nodes.items():
        if not nd.get("repeat") or rule.get(x) != SHUTDOWN or states.get(x) != FINISHED or x not in run_seq:
            continue
        same = [p for p in nd["preds"] if nodes[p]["stage"] == nd["stage"] and rule.get(p) == SHUTDOWN]
        other_shut = [p for p in nd["preds"] if rule.get(p) in (SHUTDOWN, FAILED) and p not in same]
        if same and not other_shut and all(p in fin_seq and fin_seq[p] > run_seq[x] for p in same):
            out[x] = FINISHED
    return out


def c02_judge(nodes: Dict[str, Dict[str, Any]], script: Dict[str, Any], result: Dict[str, Any],
              n_stages: int, override: Optional[Dict[str, str]] = None) -> Tuple[List[Dict[str, Any]], Dict[str, int]]:
    """Judges ONE terminated run (result of harness.run_scenario) against the documented rules."""
    exp = c02_expected(nodes, script, override)
    rule, unrec = exp["rule"], exp["unrecoverable"]
    viol: List[Dict[str, Any]] = []
    cnt = {"case_A_runs": 0, "case_B_runs": 0, "component_states_judged": 0, "stages_judged": 0,
           "final_stage_no_leaf_expected": 0}
    stages = result["stages"]
    driven = [s["stage"] for s in stages]
    stage_of = {n: nd["stage"] for n, nd in nodes.items()}
    final_states = result["final_states"]

    def v(clause, **kw):
        viol.append(dict(clause=clause, **kw))

    # (1) every component of every driven stage is in exactly one final state (read after that stage's run())
    for s in stages:
        for n, st in s.get("states", {}).items():
            if stage_of.get(n) == s["stage"]:
                cnt["component_states_judged"] += 1
                if st not in FINAL:
                    v("component-not-final-after-stage", component=n, state=st, stage=s["stage"])
    outcomes = [s["outcome"] for s in stages]
    if any(o is None or str(o).startswith("other:") for o in outcomes):
        v("stage-loop-raised-unexpected", outcomes=outcomes, errors=[s.get("error") for s in stages if s.get("error")])
        return viol, cnt
    succ = {n: [m for m in nodes if n in nodes[m]["preds"]] for n in nodes}
    if not unrec:
        cnt["case_A_runs"] += 1
        # all stages are driven; only the final one may report "no finished leaf" and only if the rules say so
        last = n_stages - 1
        leaves = [n for n in nodes if stage_of[n] == last and not succ[n]]
        no_leaf = not any(rule[n] == FINISHED for n in leaves)
        if no_leaf:
            cnt["final_stage_no_leaf_expected"] += 1
        expected_outcomes = ["ok"] * (n_stages - 1) + ["FinalStageNoFinishedLeafComponents" if no_leaf else "ok"]
        if outcomes != expected_outcomes:
            v("stage-outcomes-differ-from-rules", outcomes=outcomes, expected=expected_outcomes)
        for s in stages:
            cnt["stages_judged"] += 1
            if s["outcome"] == "ok" and s.get("stage_state") == FAILED:
                v("stage-reported-failed-without-failure", stage=s["stage"])
            for n, st in s.get("states", {}).items():
                if stage_of.get(n) == s["stage"] and st in FINAL and st != rule[n]:
                    v("final-state-differs-from-rule", component=n, state=st, rule=rule[n],
                      own_reason=exp["own_reason"].get(n))
    else:
        cnt["case_B_runs"] += 1
        if not outcomes or outcomes[-1] != "UnexpectedJobFailureError" or any(o != "ok" for o in outcomes[:-1]):
            v("unrecoverable-exit-but-stage-loop-did-not-fail", outcomes=outcomes, unrecoverable=unrec)
        else:
            s = stages[-1]
            cnt["stages_judged"] += 1
            failed_here = [n for n, st in s["states"].items() if stage_of.get(n) == s["stage"] and st == FAILED]
            if not failed_here:
                v("failed-stage-without-failed-component", stage=s["stage"])
            if s.get("stage_state") != FAILED:
                v("stage-with-failed-component-not-reported-failed", stage=s["stage"], stage_state=s.get("stage_state"))
        for s in stages:
            for n, st in s.get("states", {}).items():
                if stage_of.get(n) == s["stage"] and st in FINAL and st not in (rule[n], SHUTDOWN):
                    nd = nodes[n]
                    if st == FINISHED and nd.get("repeat") and any(nodes[p]["stage"] == nd["stage"] for p in nd["preds"]):
                        # an observer of a same-stage subject is already running when the subject's task exits
                        # unrecoverably; its own executions succeed ("success gives finished") and it may stop on
                        # its own before the controller has declared the subject failed
                        cnt["case_B_running_observer_finished"] = cnt.get("case_B_running_observer_finished", 0) + 1
                        continue
                    v("final-state-neither-rule-nor-shutdown", component=n, state=st, rule=rule[n])
        if not any(st == FAILED for st in final_states.values()):
            v("unrecoverable-exit-but-no-failed-component", unrecoverable=unrec)
    return viol, cnt


def single_final_state(result: Dict[str, Any]) -> Tuple[List[Dict[str, Any]], Dict[str, int]]:
    """Exactly one final state per component, decided on the recorded assignments of controllerState ("cs.state"
    events of the harness descriptor) plus the states read after the stage loop: once a component has been given a
    final state, no later assignment and no later reading may show anything else."""
    viol: List[Dict[str, Any]] = []
    cnt = {"state_assignments": 0, "final_assignments": 0, "components_with_final_assignment": 0}
    final_of: Dict[str, Tuple[str, int]] = {}
    for e in result["events"]:
        if e["kind"] != "cs.state":
            continue
        cnt["state_assignments"] += 1
        n = e["comp"]
        if n in final_of and e["new"] != final_of[n][0]:
            viol.append({"clause": "final-state-reassigned", "component": n, "first_final": final_of[n][0],
                         "first_seq": final_of[n][1], "then": e["new"], "seq": e["seq"]})
        if e["new"] in FINAL and n not in final_of:
            cnt["final_assignments"] += 1
            final_of[n] = (e["new"], e["seq"])
    cnt["components_with_final_assignment"] = len(final_of)
    # readings of the harness carry their own sequence number: only an assignment made BEFORE a reading binds it
    for e in result["events"]:
        if e["kind"] != "harness.states":
            continue
        for n, st in e["states"].items():
            if n in final_of and final_of[n][1] < e["seq"] and st != final_of[n][0]:
                viol.append({"clause": "state-read-after-the-run-differs-from-assigned-final-state", "component": n,
                             "assigned": final_of[n][0], "assigned_seq": final_of[n][1], "read": st,
                             "reading": e["key"], "read_seq": e["seq"]})
    if result.get("late_states") is not None:
        cnt["runs_observed_past_the_stage_loop"] = 1
        for n, st in (result.get("final_states") or {}).items():
            if st in FINAL and result["late_states"].get(n) != st:
                viol.append({"clause": "final-state-changed-after-the-stage-loop-returned", "component": n,
                             "at_return": st, "later": result["late_states"].get(n)})
    return viol, cnt


# --------------------------------------------------------------------------- C12

def c12_policy(wa: Dict[str, Any]) -> Dict[str, Any]:
    """Configured policy from the component's workflowAttributes, as the property states it."""
    mr = wa.get("maxRestarts")
    if mr is None:
        max_restarts = None if wa.get("restartHookFile") else 3     # None == unlimited
    elif mr == -1:
        max_restarts = None
    else:
        max_restarts = int(mr)
    on = wa.get("restartHookOn")
    if on is None:
        on = ["ResourceExhausted"]
    return {"max_restarts": max_restarts, "restart_on": list(on), "max_resub": 5}


def c12_check(ref: str, policy: Dict[str, Any], events: List[Dict[str, Any]]) -> Tuple[List[Dict[str, Any]], Dict[str, int]]:
    """Automaton over the launch/exit history of ONE non-repeating component."""
    viol: List[Dict[str, Any]] = []
    cnt = {"launches": 0, "relaunches_judged": 0, "restarts_counted": 0, "resubmissions_counted": 0,
           "refusals": 0, "refusals_followed_by_final": 0, "hook_calls": 0}
    last_end: Optional[str] = None          # reason that ended the previous execution
    restarts = 0
    consecutive_resub = 0
    refused_at: Optional[int] = None
    final_after_refusal = False
    history: List[str] = []
    name = ref.split(".", 1)[1]
    for e in events:
        k, comp = e["kind"], e["comp"]
        if k == "hook.call" and comp == name:
            cnt["hook_calls"] += 1
            continue
        if comp != ref:
            continue
        if k == "launch":
            cnt["launches"] += 1
            if e["exec"] > 0:
                cnt["relaunches_judged"] += 1
                history.append("relaunch-after:%s" % last_end)
                if refused_at is not None:
                    viol.append({"clause": "launch-after-refused-restart", "seq": e["seq"], "refused_at": refused_at})
                if last_end in ("Killed", "Cancelled"):
                    viol.append({"clause": "restart-after-killed-or-cancelled", "seq": e["seq"], "after": last_end})
                elif last_end == "SubmissionFailed":
                    consecutive_resub += 1
                    cnt["resubmissions_counted"] += 1
                    if consecutive_resub > policy["max_resub"]:
                        viol.append({"clause": "more-than-5-consecutive-resubmissions", "seq": e["seq"],
                                     "consecutive": consecutive_resub})
                elif last_end in policy["restart_on"]:
                    restarts += 1
                    cnt["restarts_counted"] += 1
                    if policy["max_restarts"] is not None and restarts > policy["max_restarts"]:
                        viol.append({"clause": "restarts-exceed-maximum", "seq": e["seq"], "restarts": restarts,
                                     "max": policy["max_restarts"]})
                else:
                    viol.append({"clause": "restart-after-non-restartable-exit", "seq": e["seq"], "after": last_end,
                                 "restart_on": policy["restart_on"]})
            le = e.get("launch_error")
            if le in ("OSError", "JobLaunchError"):
                last_end = "SubmissionFailed"
            elif le == "Exception":
                last_end = "UnknownIssue"
                consecutive_resub = 0
            else:
                last_end = None
        elif k == "exit":
            last_end = e["reason"]
            if last_end != "SubmissionFailed":
                consecutive_resub = 0
        elif k == "restartComponent.exit":
            if e.get("code") != "RestartInitiated":
                cnt["refusals"] += 1
                if refused_at is None:
                    refused_at = e["seq"]
        elif k == "cs.finish" and refused_at is not None and e["seq"] > refused_at:
            if e.get("final") in FINAL and not final_after_refusal:
                final_after_refusal = True
                cnt["refusals_followed_by_final"] += 1
    if refused_at is not None and not final_after_refusal:
        viol.append({"clause": "refused-restart-not-followed-by-final-state", "refused_at": refused_at})
    for v in viol:
        v["history"] = history[-12:]
    return viol, cnt
