"""Global event recorder: one append-only list under one lock, one sequence counter.
Oracles compare sequence numbers only, never timestamps."""
from __future__ import annotations

import threading
import time
from typing import Any, Callable, Dict, List, Optional


class Recorder:
    def __init__(self):
        self.lock = threading.RLock()
        self.events: List[Dict[str, Any]] = []
        self.seq = 0
        self.t0 = time.time()

    def reset(self):
        with self.lock:
            self.events = []
            self.seq = 0
            self.t0 = time.time()

    def record(self, kind: str, comp: Optional[str] = None, sampler: Optional[Callable[[], Dict[str, Any]]] = None,
               **data) -> Dict[str, Any]:
        """Append an event; `sampler` (if given) runs INSIDE the critical section so the state it
        reads is atomically tied to this sequence number."""
        with self.lock:
            self.seq += 1
            ev = {"seq": self.seq, "kind": kind, "comp": comp, "thread": threading.current_thread().name}
            ev.update(data)
            if sampler is not None:
                try:
                    ev.update(sampler())
                except Exception as e:  # sampling must never disturb the system under test
                    ev["sampler_error"] = repr(e)
            self.events.append(ev)
            return ev

    def snapshot(self) -> List[Dict[str, Any]]:
        with self.lock:
            return list(self.events)

    def count(self, kind: str, comp: Optional[str] = None) -> int:
        with self.lock:
            return sum(1 for e in self.events if e["kind"] == kind and (comp is None or e["comp"] == comp))

    def last_seq(self) -> int:
        with self.lock:
            return self.seq


REC = Recorder()
