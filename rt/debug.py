"""python -m rt.debug <scenario.json|replay.json> [K] : run one scenario and print the trace."""
import json, sys
import vlib
vlib.bootstrap()
from rt import harness, wfgen, oracles

def main():
    d = json.load(open(sys.argv[1]))
    sc = d.get("witness", {}).get("scenario") or d.get("scenario") or d
    K = float(sys.argv[2]) if len(sys.argv) > 2 else 20.0
    harness.setup_process(K)
    import os
    if os.environ.get("VERIF_TY"):
        which, _, seed = os.environ["VERIF_TY"].partition(":")
        print("targeted yield", harness.install_targeted_yield(p=0.3 if which == "emission" else 0.15, max_sleep=0.004,
                                                              seed=int(seed or 0), which=which))
    wf = sc["wf"]
    nodes = wfgen.expand(wf)
    loc = vlib.mkscratch("dbg")
    r = harness.run_scenario(wfgen.to_flowir(wf), sc["script"], loc, perturb_seed=sc.get("pseed", 0),
                             jitter_p=sc.get("jitter_p", 0.3), jitter_max=sc.get("jitter_max", 0.02),
                             storm=sc.get("storm", True), watchdog_s=float(sc.get("watchdog_s", 60)),
                             linger_v=float(sc.get("linger_v", 32.0)))
    print("build_error", r["build_error"]); 
    if r["build_error"]: print(r["build_tb"]); return
    print("outcomes", [s["outcome"] for s in r["stages"]], "watchdog", r["watchdog_fired"], "wall", r["wall_s"])
    print("final", r["final_states"])
    print("expected", oracles.c02_expected(nodes, sc["script"]))
    if r["watchdog_fired"]: print("diag", json.dumps(r["stuck_diag"], indent=1))
    skip = ("storm.wake", "schedule.enter", "schedule.exit", "kernel.enter", "kernel.exit")
    if "-v" in sys.argv: skip = ("storm.wake",)
    for e in r["events"]:
        if e["kind"] in skip: continue
        print({k: v for k, v in e.items() if k not in ("thread", "graph_preds")})
    v, c = oracles.c01_check(nodes, r["events"]); print("c01", v, c)
    v, c = oracles.single_final_state(r); print("single-final-state", v, c)
    import os; sys.stdout.flush()
    vlib._cleanup_scratch()      # os._exit skips atexit: remove the scratch / shadow roots this process owns (if any)
    os._exit(0)
main()
