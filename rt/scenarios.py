"""Seeded generators of exit scripts for the runtime checks + the batch runner used by workers."""
from __future__ import annotations

import random
import shutil
from typing import Any, Dict, List, Optional

import vlib

from . import wfgen


def gen_script(rng: random.Random, nodes: Dict[str, Dict[str, Any]], p_bad: float = 0.4,
               allow_unrecoverable: bool = True) -> Dict[str, Any]:
    """Exit script inside the domain of oracles.final_reason (restart / resubmission caps never mixed)."""
    comps: Dict[str, List[Dict[str, Any]]] = {}
    for ref, nd in nodes.items():
        dur = lambda: round(rng.choice([0.5, 0.8, 1.0, 1.5, 2.0, 3.0]), 2)
        if nd.get("repeat"):
            comps[ref] = [{"reason": "Success", "duration": dur()} for _ in range(3)]
            continue
        if rng.random() >= p_bad:
            comps[ref] = [{"reason": "Success", "duration": dur()}]
            continue
        kind = rng.choice(["re", "re", "sf", "sf", "shutdown", "shutdown", "fail", "fail", "re4", "sf6"])
        if kind in ("fail", "re4", "sf6") and not allow_unrecoverable:
            kind = "re"
        execs: List[Dict[str, Any]] = []
        if kind == "re":
            execs = [{"reason": "ResourceExhausted", "duration": dur()} for _ in range(rng.randint(1, 3))]
            execs.append({"reason": "Success", "duration": dur()})
        elif kind == "sf":
            execs = [{"launch_error": rng.choice(["OSError", "JobLaunchError"])} for _ in range(rng.randint(1, 3))]
            execs.append({"reason": "Success", "duration": dur()})
        elif kind == "shutdown":
            so = nd.get("shutdownOn") or []
            # without a shutdown list KnownIssue is an unrecoverable exit
            execs = [{"reason": so[0] if so else ("KnownIssue" if allow_unrecoverable else "Success"), "duration": dur()}]
        elif kind == "fail":
            execs = [{"reason": rng.choice(["KnownIssue", "SystemIssue", "UnknownIssue"]), "duration": dur()}]
        elif kind == "re4":
            execs = [{"reason": "ResourceExhausted", "duration": 0.5} for _ in range(4)]
        elif kind == "sf6":
            execs = [{"launch_error": "JobLaunchError"} for _ in range(6)]
        comps[ref] = execs
    return {"default": {"reason": "Success", "duration": 1.0, "files": ["out.dat"]}, "components": comps}


def gen_pair(rng: random.Random, **wf_kw) -> Dict[str, Any]:
    wf = wfgen.gen_workflow(rng, **wf_kw)
    nodes = wfgen.expand(wf)
    script = gen_script(rng, nodes, p_bad=rng.choice([0.0, 0.25, 0.4, 0.6]))
    return {"wf": wf, "script": script}
